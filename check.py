#!/usr/bin/env python3
"""Runner for the solver-based checks of protoc-gen-terraform (DESIGN.md §2).

  check.py <Cxx> [--tier quick|thorough] [--programs a,b] [--keep] [--replay DIR]

exit 0: every obligation discharged (KNOWN-FINDING lines possible)
exit 1: a replayed counterexample: "VIOLATION property=<id> replay=<path>"
exit 2: the check itself could not conclude (unsupported construct, unknown,
        model that does not replay, vacuous harness, build failure)
"""
import argparse, atexit, concurrent.futures as cf, json, os, re, shutil, subprocess, sys, time

VERIF = os.path.dirname(os.path.abspath(__file__))
REPO = os.environ.get("VERIF_REPO", "/repo")
GOENV = dict(os.environ, GOFLAGS="-mod=mod", GOPROXY="off", GOSUMDB="off", GOTOOLCHAIN="local")
sys.path.insert(0, VERIF)
from props import PROPS  # noqa: E402


def sh(cmd, cwd=None, timeout=None, env=None, check=True, inp=None):
    p = subprocess.run(cmd, cwd=cwd, env=env or GOENV, stdout=subprocess.PIPE, stderr=subprocess.PIPE,
                       timeout=timeout, input=inp)
    if check and p.returncode != 0:
        raise RuntimeError("command failed (%d): %s\n%s\n%s" % (p.returncode, " ".join(map(str, cmd)),
                                                              p.stdout.decode()[-2000:], p.stderr.decode()[-3000:]))
    return p


class Ctx:
    def __init__(self, prop, tier, keep):
        self.prop, self.tier, self.keep = prop, tier, keep
        base = os.environ.get("VERIF_WORK", "/var/tmp")
        self.work = os.path.join(base, "verif-%s-%d" % (prop, os.getpid()))
        os.makedirs(self.work, exist_ok=True)
        if not keep:
            atexit.register(lambda: shutil.rmtree(self.work, ignore_errors=True))
        self.seed = int(os.environ.get("VERIF_SEED", "0") or 0)
        self.errors, self.violations, self.known = [], [], []
        self.results = []
        self.t0 = time.time()

    def ensure_bins(self):
        for name in ("gosym", "corpus"):
            src = os.path.join(VERIF, "engine" if name == "gosym" else "corpus")
            out = os.path.join(VERIF, "bin", name)
            newest = max(os.path.getmtime(os.path.join(src, f)) for f in os.listdir(src) if f.endswith(".go"))
            if not os.path.exists(out) or os.path.getmtime(out) < newest:
                os.makedirs(os.path.join(VERIF, "bin"), exist_ok=True)
                sh(["go", "build", "-o", out, "."], cwd=src, timeout=600)

    def build_plugin(self):
        self.plugin = os.path.join(self.work, "protoc-gen-terraform")
        sh(["go", "build", "-o", self.plugin, "."], cwd=REPO, timeout=600)


def known_findings():
    p = os.path.join(VERIF, "known-findings.json")
    if not os.path.exists(p):
        return []
    return json.load(open(p))


def run_program(ctx, spec, prog):
    """level G: one corpus program (or differential variant) -> scratch module -> gosym -> verdicts."""
    d = os.path.join(ctx.work, re.sub(r"[^A-Za-z0-9_-]+", "_", prog["name"]))
    t0 = time.time()
    bounds = spec.get("bounds", {}).get(ctx.tier, {})
    kl, km = bounds.get("KL", 2), bounds.get("KM", 2)
    if prog.get("variant"):
        cmd = [os.path.join(VERIF, "bin/corpus"), "build", "-variant", prog["name"], "-plugin", ctx.plugin, "-out", d, "-kl", str(kl), "-km", str(km)]
    else:
        cmd = [os.path.join(VERIF, "bin/corpus"), "build", "-program", prog["name"], "-plugin", ctx.plugin, "-out", d,
               "-kl", str(kl), "-km", str(km), "-families", ",".join(spec["families"])]
    known = [k for k in known_findings() if k.get("status") == "known" and k["property"] == ctx.prop]
    if known:
        kf = os.path.join(ctx.work, "known.json")
        json.dump(known, open(kf, "w"))
        cmd += ["-known", kf]
    p = sh(cmd, check=False, timeout=600)
    if p.returncode != 0:
        return {"program": prog["name"], "error": "corpus build failed: " + p.stderr.decode()[-1500:]}
    info = json.loads(p.stdout.decode())
    if info.get("missing_functions"):
        return {"program": prog["name"], "missing_functions": info["missing_functions"], "info": info, "dir": d, "harnesses": [], "is_variant": True}
    res_path = os.path.join(d, "res.json")
    timeout_ms = 60000 if ctx.tier == "quick" else 300000
    g = [os.path.join(VERIF, "bin/gosym"), "-dir", d, "-pkg", "./" + info["pkg"], "-run", spec["harness"], "-labels", spec["labels"],
         "-out", res_path, "-workers", str(spec.get("workers", 4)), "-timeout", str(timeout_ms), "-unwind", "64",
         "-witnesses", "2" if ctx.tier == "quick" else "6", "-seed", str(ctx.seed)] + spec.get("gosym", [])
    g += ["-fallback", "z3" if "z3-new" in spec.get("gosym", []) else "z3-new"]
    if info.get("summarize"):
        g += ["-summarize", info["summarize"]]
    if ctx.tier == "thorough" and spec.get("solver2", True):
        g += ["-solver2", "z3" if "z3-new" in spec.get("gosym", []) else "z3-new"]
    p = sh(g, check=False, timeout=3600)
    if p.returncode != 0:
        msg = (p.stderr.decode() + p.stdout.decode())[-2000:]
        gen = os.path.basename(info.get("generated_file") or "")
        if prog.get("variant") and ctx.prop == "C13" and gen and re.search(r"/tb/%s:\d+:\d+: " % re.escape(gen), msg) and os.path.exists(os.path.join(d, "p")) and not re.search(r"/p/[^:\s]+\.go:\d+:\d+: ", msg):
            # C13: "the generated file must compile in the other package". Package p (same-package variant,
            # same descriptor) type-checked - the loader got as far as tb - and the errors are inside the file
            # the plugin generated for the separate package.
            errs = re.findall(r"/tb/%s:\d+:\d+: [^\n]*" % re.escape(gen), msg)[:5]
            return {"program": prog["name"], "does_not_compile": errs, "info": info, "dir": d, "harnesses": [], "is_variant": True}
        if ctx.prop == "C17" and gen:
            # C17: the corpus' support package defines the hooks exactly under the documented names
            # (GenSchema<S> / CopyFrom<S> / CopyTo<S>); a reference to an undefined hook in the generated file
            # means the generator derived another suffix
            und = re.findall(r"/%s:\d+:\d+: undefined: (?:GenSchema|CopyFrom|CopyTo)\w+" % re.escape(gen), msg)
            if und:
                return {"program": prog["name"], "undefined_hooks": und[:6], "info": info, "dir": d, "harnesses": []}
        return {"program": prog["name"], "error": "gosym failed: " + msg}
    res = json.load(open(res_path))
    res["program"] = prog["name"]
    res["dir"] = d
    res["info"] = info
    res["wall_s"] = time.time() - t0
    res["bounds"] = {"KL": kl, "KM": km}
    return res


_replay_bins = {}


def replay(ctx, res, harness, model):
    """run the same harness natively with the model's values; returns the report dict."""
    d = res["dir"]
    if d not in _replay_bins:
        out = os.path.join(d, "replay.bin")
        sh(["go", "build", "-o", out, "./cmd/replay"], cwd=d, timeout=900)
        _replay_bins[d] = out
    vec = os.path.join(d, "vec-%d.json" % (time.time_ns()))
    json.dump(model or [], open(vec, "w"))
    p = sh([_replay_bins[d], harness, vec], cwd=d, check=False, timeout=120)
    out = p.stdout.decode().strip().splitlines()
    if not out:
        return {"crash": (p.stderr.decode() or "no output")[-1500:]}
    try:
        return json.loads(out[-1])
    except Exception:
        return {"crash": p.stdout.decode()[-1500:] + p.stderr.decode()[-1500:]}


def save_bundle(ctx, res, harness, obl, report):
    n = len(ctx.violations) + len(ctx.known) + 1
    bd = os.path.join(VERIF, "replays", ctx.prop, "%s-%s-%d" % (res["program"], re.sub(r"[^A-Za-z0-9]+", "_", obl["label"])[:60], n))
    shutil.rmtree(bd, ignore_errors=True)
    os.makedirs(bd)
    json.dump({"property": ctx.prop, "level": "G", "variant": bool(res.get("is_variant")), "program": res["program"], "harness": harness, "label": obl["label"], "kind": obl["kind"],
               "model": obl.get("model"), "native_report": report, "bounds": res.get("bounds"),
               "families": PROPS[ctx.prop].get("G", {}).get("families", [])}, open(os.path.join(bd, "replay.json"), "w"), indent=1)
    gen = res["info"].get("generated_file")
    if gen and os.path.exists(gen):
        shutil.copy(gen, os.path.join(bd, "generated_terraform.go.txt"))
    spec = os.path.join(res["dir"], res["info"]["pkg"], "zz_spec.go")
    if os.path.exists(spec):
        shutil.copy(spec, os.path.join(bd, "harness_spec.go.txt"))
    open(os.path.join(bd, "replay.sh"), "w").write("#!/bin/sh\ncd %s && exec python3 check.py %s --replay %s\n" % (VERIF, ctx.prop, bd))
    os.chmod(os.path.join(bd, "replay.sh"), 0o755)
    return bd


def confirms(obl, report):
    """does the native run fail the same obligation?"""
    if "crash" in report or report.get("assume_failed") or report.get("desync"):
        return False
    if obl["kind"] == "panic":
        return "panic" in report
    if obl["kind"] == "excused":
        return any(k.startswith(obl["label"] + "|") for k in (report.get("known") or []))
    return obl["label"] in (report.get("failed") or []) or ("panic" in report and obl["kind"] == "violation" and False)


def judge(ctx, spec, res):
    """turn solver verdicts of one program into violations / errors / known findings."""
    if res.get("missing_functions"):
        # variant B's generated file lacks functions of a compared type: the two variants cannot behave alike
        bd = os.path.join(VERIF, "replays", ctx.prop, "%s-missing-functions-%d" % (re.sub(r"[^A-Za-z0-9]+", "_", res["program"]), len(ctx.violations) + 1))
        shutil.rmtree(bd, ignore_errors=True)
        os.makedirs(bd)
        json.dump({"property": ctx.prop, "level": "M", "program": res["program"], "missing_functions": res["missing_functions"]}, open(os.path.join(bd, "replay.json"), "w"), indent=1)
        gen = res["info"].get("generated_file")
        if gen and os.path.exists(gen):
            shutil.copy(gen, os.path.join(bd, "generated_terraform.go.txt"))
        open(os.path.join(bd, "replay.sh"), "w").write("#!/bin/sh\ncd %s && exec python3 check.py %s --replay %s\n" % (VERIF, ctx.prop, bd))
        os.chmod(os.path.join(bd, "replay.sh"), 0o755)
        ctx.violations.append(("%s/diff: the variant's generated file has no %s" % (ctx.prop, ", ".join(res["missing_functions"])), res["program"], bd))
        return
    if res.get("undefined_hooks"):
        bd = os.path.join(VERIF, "replays", ctx.prop, "%s-undefined-hooks-%d" % (re.sub(r"[^A-Za-z0-9]+", "_", res["program"]), len(ctx.violations) + 1))
        shutil.rmtree(bd, ignore_errors=True)
        os.makedirs(bd)
        json.dump({"property": ctx.prop, "level": "H", "program": res["program"], "errors": res["undefined_hooks"]}, open(os.path.join(bd, "replay.json"), "w"), indent=1)
        gen = res["info"].get("generated_file")
        if gen and os.path.exists(gen):
            shutil.copy(gen, os.path.join(bd, "generated_terraform.go.txt"))
        open(os.path.join(bd, "replay.sh"), "w").write("#!/bin/sh\ncd %s && exec python3 check.py %s --replay %s\n" % (VERIF, ctx.prop, bd))
        os.chmod(os.path.join(bd, "replay.sh"), 0o755)
        ctx.violations.append(("C17/hooks: the generated file calls a hook that is not the documented GenSchema<S>/CopyFrom<S>/CopyTo<S> (%s)" % res["undefined_hooks"][0][-80:], res["program"], bd))
        return
    if res.get("does_not_compile"):
        bd = os.path.join(VERIF, "replays", ctx.prop, "%s-does-not-compile-%d" % (re.sub(r"[^A-Za-z0-9]+", "_", res["program"]), len(ctx.violations) + 1))
        shutil.rmtree(bd, ignore_errors=True)
        os.makedirs(bd)
        json.dump({"property": ctx.prop, "level": "B", "program": res["program"], "errors": res["does_not_compile"]}, open(os.path.join(bd, "replay.json"), "w"), indent=1)
        gen = res["info"].get("generated_file")
        if gen and os.path.exists(gen):
            shutil.copy(gen, os.path.join(bd, "generated_terraform.go.txt"))
        open(os.path.join(bd, "replay.sh"), "w").write("#!/bin/sh\ncd %s && exec python3 check.py %s --replay %s\n" % (VERIF, ctx.prop, bd))
        os.chmod(os.path.join(bd, "replay.sh"), 0o755)
        ctx.violations.append(("C13/diff: the file generated for the separate package does not compile there (%s)" % res["does_not_compile"][0][-120:], res["program"], bd))
        return
    if "error" in res:
        ctx.errors.append("%s: %s" % (res["program"], res["error"]))
        return
    for h in res["harnesses"]:
        if h["status"] != "ok":
            ctx.errors.append("%s/%s: %s" % (res["program"], h["harness"], h.get("error")))
            continue
        reach = {}
        for o in h["obligations"]:
            v = o["verdict"]
            if o.get("verdict2") in ("sat", "unsat") and v in ("sat", "unsat") and o["verdict2"] != v and not o["folded"]:
                ctx.errors.append("%s/%s %s: solvers disagree (%s vs %s)" % (res["program"], h["harness"], o["label"], v, o["verdict2"]))
            if o["kind"] == "reach":
                if v not in ("sat", "unsat"):
                    ctx.errors.append("%s/%s %s: reachability inconclusive (%s)" % (res["program"], h["harness"], o["label"], v))
                reach[o["label"]] = reach.get(o["label"], False) or v == "sat"
                continue
            if o["kind"] == "witness-random":
                if v != "sat":
                    continue
                rep = replay(ctx, res, h["harness"], o.get("model"))
                o["native"] = rep
                lre = re.compile(spec["labels"])
                bad = [x for x in (rep.get("failed") or []) if lre.search(x)] or rep.get("panic") or rep.get("crash") or rep.get("desync") or rep.get("assume_failed")
                proved_all = all(x["verdict"] == "unsat" for x in h["obligations"] if x["kind"] in ("violation", "panic"))
                if bad and proved_all:
                    ctx.errors.append("%s/%s: randomised witness fails natively although every obligation was proved (engine unsound?): %s" % (res["program"], h["harness"], json.dumps(rep)[:600]))
                continue
            if o["kind"] == "witness":
                if v != "sat":
                    ctx.errors.append("%s/%s %s: harness end not reachable (%s) - vacuous" % (res["program"], h["harness"], o["label"], v))
                    continue
                rep = replay(ctx, res, h["harness"], o.get("model"))
                o["native"] = rep
                lre = re.compile(spec["labels"])
                bad = [x for x in (rep.get("failed") or []) if lre.search(x)] or rep.get("panic") or rep.get("crash") or rep.get("desync") or rep.get("assume_failed")
                # a witness model satisfies the assumptions; every assertion the solver proved must pass natively
                proved_all = all(x["verdict"] == "unsat" for x in h["obligations"] if x["kind"] in ("violation", "panic"))
                if bad and proved_all:
                    ctx.errors.append("%s/%s: witness model fails natively although every obligation was proved: %s" % (res["program"], h["harness"], json.dumps(rep)[:600]))
                continue
            if o["kind"] == "excused":
                if v == "sat":
                    rep = replay(ctx, res, h["harness"], o.get("model"))
                    if confirms(o, rep):
                        bd = save_bundle(ctx, res, h["harness"], o, rep)
                        ctx.known.append((o.get("excuse"), o["label"], res["program"], bd))
                    else:
                        ctx.errors.append("%s/%s %s: excused counterexample does not replay: %s" % (res["program"], h["harness"], o["label"], json.dumps(rep)[:400]))
                elif v != "unsat":
                    ctx.errors.append("%s/%s %s: inconclusive (%s)" % (res["program"], h["harness"], o["label"], v))
                continue
            # violation | panic | outside-excuse : expect unsat
            if v == "unsat":
                continue
            if v == "sat":
                rep = replay(ctx, res, h["harness"], o.get("model"))
                o["native"] = rep
                if confirms(o, rep) or (o["kind"] == "outside-excuse" and o["label"] in (rep.get("failed") or [])):
                    bd = save_bundle(ctx, res, h["harness"], o, rep)
                    ctx.violations.append((o["label"], res["program"], bd))
                else:
                    ctx.errors.append("%s/%s %s: solver model does not reproduce natively (engine or stub bug): %s" %
                                      (res["program"], h["harness"], o["label"], json.dumps(rep)[:600]))
            else:
                ctx.errors.append("%s/%s %s: inconclusive (%s)" % (res["program"], h["harness"], o["label"], v))
        labels = {o["label"] for o in h["obligations"] if o["kind"] == "violation" and not o["folded"]}
        for lab in labels:
            if lab in reach and not reach[lab]:
                ctx.errors.append("%s/%s %s: assertion is unreachable in every instance (vacuous)" % (res["program"], h["harness"], lab))


def evidence(ctx, spec_all, results, kres):
    obls, folded, solved, evals, samples = 0, 0, 0, 0, []
    fns, stubs, progs, solver_ms, max_ms, unknown, witnesses, replayed = {}, {}, [], 0, 0, 0, 0, 0
    distinct = set()
    range_map = []
    cross, cross_inc = 0, 0
    for res in results + kres:
        if "error" in res:
            continue
        progs.append(res["program"])
        for h in res["harnesses"]:
            for k, v in (h.get("function_instrs") or {}).items():
                fns[k] = v
            for k, v in (h.get("stubs") or {}).items():
                stubs[k] = stubs.get(k, 0) + v
            range_map += h.get("range_over_map") or []
            for o in h.get("obligations") or []:
                evals += 1
                if o["kind"] in ("violation", "panic", "outside-excuse"):
                    obls += 1
                    if o["folded"]:
                        folded += 1
                    else:
                        solved += 1
                        distinct.add((res["program"], h["harness"], o["label"]))
                if o["kind"] in ("witness", "witness-random") and o["verdict"] == "sat":
                    witnesses += 1
                    if "native" in o:
                        replayed += 1
                solver_ms += o.get("ms", 0)
                max_ms = max(max_ms, o.get("ms", 0))
                if o["verdict"] not in ("sat", "unsat"):
                    unknown += 1
                if o.get("verdict2") in ("sat", "unsat") and not o["folded"]:
                    cross += 1
                elif o.get("verdict2"):
                    cross_inc += 1
                if not o["folded"] and len(samples) < 12 and o["kind"] in ("violation", "panic") and (evals % 7 == 0 or len(samples) < 3):
                    samples.append({"program": res["program"], "harness": h["harness"], "label": o["label"], "kind": o["kind"],
                                    "verdict": o["verdict"], "ms": o.get("ms", 0)})
    if not samples:
        samples = [{"note": "no obligation reached the solver"}]
    discharged = sum(1 for res in results + kres if "error" not in res for h in res["harnesses"] for o in h.get("obligations") or []
                     if o["kind"] in ("violation", "panic", "outside-excuse") and o["verdict"] == "unsat")
    ev = {
        "property_id": ctx.prop, "tier": ctx.tier, "seed": ctx.seed, "level": PROPS[ctx.prop].get("level", "model_checking"),
        "coverage": {
            "evaluations": evals,
            "distinct_nontrivial": len(distinct),
            "rule": "one obligation per labelled assertion instance per harness per program, plus a reachability twin per distinct path condition; "
                    "non-trivial = the formula did not fold to a constant and was decided by the SMT solver; distinct = distinct (program, harness, label)",
            "samples": samples,
            "obligations": obls, "discharged": discharged, "folded": folded, "solver_decided": solved,
            "reachability_witnesses": witnesses, "witnesses_replayed_natively": replayed,
            "states": max(1, solved), "transitions": max(1, evals), "traces_validated_against_impl": replayed + len(ctx.violations) + len(ctx.known),
            "programs": len(progs), "disagreements_checked": cross, "cross_check_inconclusive": cross_inc,
            "program_list": progs,
            "functions_encoded": [{"fn": k, "instrs": v} for k, v in sorted(fns.items())][:400],
            "stubs": stubs,
            "bounds": PROPS[ctx.prop].get("bounds_text", {}),
            "range_over_map_sites": sorted(set(range_map))[:50],
            "solver": {"level_G": "z3 4.8.12 primary (C06: z3 5.1.0), z3 5.1.0 fallback; thorough: cross-check by the other one", "level_K": "z3 5.1.0 primary, z3 4.8.12 fallback; thorough: cross-check by z3 4.8.12 (20 s cap, inconclusive = not cross-checked)", "total_ms": solver_ms, "max_ms": max_ms, "inconclusive": unknown},
            "pipeline_observations": [{"name": o["name"], "mode": o["mode"], "functions": o.get("funcs"), "failures": o.get("failures")} for o in getattr(ctx, "observations", [])],
            "known_findings_reported": [list(k[:3]) for k in ctx.known],
            "errors": ctx.errors[:20],
            "exhaustive": False,
            "explanation": "bounded symbolic execution of the real Go code (go/ssa) with SMT verdicts; bounds as stated",
        },
        "assumptions": PROPS[ctx.prop].get("assumptions", []) + [
            "go/ssa lowering (x/tools v0.29.0) is faithful", "gosym's semantics (validated by native replay of every witness and counterexample)",
            "z3 verdicts", "append is modelled as copy (no aliasing of backing arrays)", "no goroutines"],
        "wall_s": round(time.time() - ctx.t0, 2),
        "violations": len(ctx.violations),
    }
    evdir = os.environ.get("VERIF_EVIDENCE_DIR", os.path.join(VERIF, "evidence"))
    os.makedirs(evdir, exist_ok=True)
    json.dump(ev, open(os.path.join(evdir, ctx.prop + ".json"), "w"), indent=1)


def do_replay(prop, path):
    info = json.load(open(os.path.join(path, "replay.json")))
    ctx = Ctx(prop, "quick", False)
    ctx.ensure_bins()
    ctx.build_plugin()
    if info.get("level") == "K":
        import klevel
        info["path"] = path
        return klevel.replay_bundle(ctx, info)
    if info.get("level") == "H":
        d = os.path.join(ctx.work, "h")
        sh([os.path.join(VERIF, "bin/corpus"), "build", "-program", info["program"], "-plugin", ctx.plugin, "-out", d, "-kl", "1", "-km", "1", "-families", "custom"], timeout=600)
        p = sh(["go", "build", "./p/"], cwd=d, check=False, timeout=900)
        if re.search(r"undefined: (?:GenSchema|CopyFrom|CopyTo)\w+", p.stderr.decode()):
            print(p.stderr.decode()[-1500:])
            print("VIOLATION property=%s replay=%s" % (prop, path))
            return 1
        print("replay does not fail on this tree")
        return 0
    if info.get("level") == "B":
        d = os.path.join(ctx.work, "b")
        sh([os.path.join(VERIF, "bin/corpus"), "build", "-variant", info["program"], "-plugin", ctx.plugin, "-out", d, "-kl", "1", "-km", "1"], timeout=600)
        p = sh(["go", "build", "./tb/"], cwd=d, check=False, timeout=900)
        if p.returncode != 0:
            print(p.stderr.decode()[-1500:])
            print("VIOLATION property=%s replay=%s" % (prop, path))
            return 1
        print("replay does not fail on this tree")
        return 0
    if info.get("level") == "M":
        d = os.path.join(ctx.work, "m")
        p = sh([os.path.join(VERIF, "bin/corpus"), "build", "-variant", info["program"], "-plugin", ctx.plugin, "-out", d, "-kl", "1", "-km", "1"], timeout=600)
        miss = json.loads(p.stdout.decode()).get("missing_functions")
        if miss:
            print("missing functions:", miss)
            print("VIOLATION property=%s replay=%s" % (prop, path))
            return 1
        print("replay does not fail on this tree")
        return 0
    if info.get("level") == "O":
        p = sh([os.path.join(VERIF, "bin/corpus"), "observe", "-plugin", ctx.plugin, "-out", os.path.join(ctx.work, "observe"), info["mode"]], timeout=900)
        for o in json.loads(p.stdout.decode()):
            if o["name"] == info["name"] and o["mode"] == info["mode"] and o.get("failures"):
                print(json.dumps(o["failures"]))
                print("VIOLATION property=%s replay=%s" % (prop, path))
                return 1
        print("replay does not fail on this tree")
        return 0
    d = os.path.join(ctx.work, re.sub(r"[^A-Za-z0-9_-]+", "_", info["program"]))
    b = info.get("bounds") or {}
    if info.get("variant"):
        p = sh([os.path.join(VERIF, "bin/corpus"), "build", "-variant", info["program"], "-plugin", ctx.plugin, "-out", d,
                "-kl", str(b.get("KL", 2)), "-km", str(b.get("KM", 2))], timeout=600)
    else:
        p = sh([os.path.join(VERIF, "bin/corpus"), "build", "-program", info["program"], "-plugin", ctx.plugin, "-out", d,
                "-kl", str(b.get("KL", 2)), "-km", str(b.get("KM", 2)), "-families", ",".join(info["families"])], timeout=600)
    res = {"dir": d, "program": info["program"], "info": json.loads(p.stdout.decode())}
    rep = replay(ctx, res, info["harness"], info.get("model"))
    print(json.dumps(rep))
    obl = {"kind": info["kind"], "label": info["label"]}
    if confirms(obl, rep) or info["label"] in (rep.get("failed") or []):
        print("VIOLATION property=%s replay=%s" % (prop, path))
        return 1
    print("replay does not fail on this tree")
    return 0


def main():
    ap = argparse.ArgumentParser()
    ap.add_argument("prop")
    ap.add_argument("--tier", default=os.environ.get("VERIF_TIER", "quick"))
    ap.add_argument("--programs", default="")
    ap.add_argument("--keep", action="store_true")
    ap.add_argument("--replay", default="")
    ap.add_argument("--only", default="", help="G or K")
    a = ap.parse_args()
    if a.prop not in PROPS:
        print("unknown or not applicable property", a.prop)
        return 2
    if a.replay:
        return do_replay(a.prop, a.replay)
    ctx = Ctx(a.prop, a.tier, a.keep)
    spec = PROPS[a.prop]
    try:
        ctx.ensure_bins()
        ctx.build_plugin()
    except Exception as e:  # build failure of the tree under test
        print("ERROR: cannot build: %s" % e)
        return 2
    results, kres = [], []
    if "G" in spec and a.only in ("", "G"):
        g = spec["G"]
        plist = json.loads(sh([os.path.join(VERIF, "bin/corpus"), "list", "-tier", a.tier]).stdout.decode())
        progs = [p for p in plist if any(f in p["families"] for f in g["families"])]
        if g.get("programs"):
            pat = g["programs"][a.tier] if isinstance(g["programs"], dict) else g["programs"]
            progs = [p for p in progs if re.search(pat, p["name"])]
        if a.programs:
            want = a.programs.split(",")
            progs = [p for p in plist if p["name"] in want]
        with cf.ThreadPoolExecutor(max_workers=int(os.environ.get("VERIF_JOBS", "5"))) as ex:
            futs = [ex.submit(run_program, ctx, g, p) for p in progs]
            for f in futs:
                try:
                    results.append(f.result())
                except Exception as e:
                    results.append({"program": "?", "error": str(e)})
        for r in results:
            judge(ctx, g, r)
    if "V" in spec and a.only in ("", "V"):
        v = spec["V"]
        vlist = json.loads(sh([os.path.join(VERIF, "bin/corpus"), "variants", "-tier", a.tier, "-prop", a.prop]).stdout.decode()) or []
        if a.programs:
            vlist = [x for x in vlist if x["name"] in a.programs.split(",")]
        vres = []
        with cf.ThreadPoolExecutor(max_workers=int(os.environ.get("VERIF_JOBS", "5"))) as ex:
            futs = [ex.submit(run_program, ctx, v, dict(x, variant=True)) for x in vlist]
            for f in futs:
                try:
                    vres.append(f.result())
                except Exception as e:
                    vres.append({"program": "?", "error": str(e)})
        for r in vres:
            r["is_variant"] = True
            judge(ctx, v, r)
        results += vres
    if "K" in spec and a.only in ("", "K"):
        import klevel
        kres = klevel.run(ctx, spec["K"])
        for r in kres:
            klevel.judge(ctx, spec["K"], r)
    obs = []
    if "O" in spec and a.only in ("", "O"):
        od = os.path.join(ctx.work, "observe")
        p = sh([os.path.join(VERIF, "bin/corpus"), "observe", "-plugin", ctx.plugin, "-out", od, spec["O"]], check=False, timeout=900)
        if p.returncode != 0:
            ctx.errors.append("pipeline observation failed: " + p.stderr.decode()[-800:])
        else:
            obs = json.loads(p.stdout.decode())
            for o in obs:
                for f in o.get("failures") or []:
                    bd = os.path.join(VERIF, "replays", ctx.prop, "O-%s-%s-%d" % (o["name"], o["mode"], len(ctx.violations) + 1))
                    shutil.rmtree(bd, ignore_errors=True)
                    os.makedirs(bd)
                    json.dump({"property": ctx.prop, "level": "O", "name": o["name"], "mode": o["mode"], "failure": f, "funcs": o.get("funcs"), "log_tail": o.get("log_tail")},
                              open(os.path.join(bd, "replay.json"), "w"), indent=1)
                    if o.get("request") and os.path.exists(o["request"]):
                        shutil.copy(o["request"], os.path.join(bd, "request.bin"))
                    ctx.violations.append(("%s/%s: %s" % (o["name"], o["mode"], f), "pipeline", bd))
    ctx.observations = obs
    evidence(ctx, spec, results, kres)
    for exc, label, prog, bd in ctx.known:
        print("KNOWN-FINDING: property=%s %s (%s, %s) replay=%s" % (ctx.prop, exc, prog, label, bd))
    for e in ctx.errors:
        print("ERROR:", e)
    for label, prog, bd in ctx.violations:
        print("counterexample: %s in %s" % (label, prog))
        print("VIOLATION property=%s replay=%s" % (ctx.prop, bd))
    if ctx.violations:
        return 1
    if ctx.errors:
        return 2
    nobl = sum(len(h.get("obligations") or []) for r in results + kres if "error" not in r for h in r["harnesses"])
    print("OK property=%s tier=%s programs=%d obligations=%d wall=%.1fs" % (ctx.prop, ctx.tier, len(results) + len(kres), nobl, time.time() - ctx.t0))
    return 0


if __name__ == "__main__":
    sys.exit(main())
