package main

// String operations. In atom mode (level G) only equality and operations on
// constants exist; in theory mode (level K) Go strings are bounded bit-vector
// strings (bvstr.go).

import (
	"go/token"

	"golang.org/x/tools/go/ssa"
)

func (e *Engine) needTheory(what string) {
	if !strTheory {
		panic(unsupported("%s on a symbolic string atom (level G strings only support equality)", what))
	}
}

func capGuard(ts ...*Term) {
	total := 0
	for _, t := range ts {
		if !t.IsConst {
			total += sCap(t)
		} else {
			total += len(t.S)
		}
	}
	if total > 200 {
		panic(unsupported("symbolic string operation beyond 200 bytes"))
	}
}

func (e *Engine) strLenBV(s *Term) *Term {
	if s.IsConst {
		return BVC(64, uint64(len(s.S)))
	}
	e.needTheory("len")
	return sLen64(s)
}

func strCompare(op token.Token, x, y *Term) *Term {
	if x.IsConst && y.IsConst {
		switch op {
		case token.LSS:
			return BoolC(x.S < y.S)
		case token.LEQ:
			return BoolC(x.S <= y.S)
		case token.GTR:
			return BoolC(x.S > y.S)
		case token.GEQ:
			return BoolC(x.S >= y.S)
		}
	}
	if !strTheory {
		panic(unsupported("string ordering on symbolic atoms"))
	}
	capGuard(x, y)
	switch op {
	case token.LSS:
		return sLess(x, y)
	case token.LEQ:
		return Not(sLess(y, x))
	case token.GTR:
		return sLess(y, x)
	case token.GEQ:
		return Not(sLess(x, y))
	}
	panic("strCompare")
}

// strIndex models s[i] (a byte).
func (e *Engine) strIndex(st *State, s, idx *Term) Value {
	if idx.W != 64 {
		idx = BVConv(idx, idx.W, 64, true)
	}
	if s.IsConst && idx.IsConst {
		if int(idx.BV) >= len(s.S) {
			e.addPanic(st, TrueT)
			st.pc = FalseT
			return BVC(8, 0)
		}
		return BVC(8, uint64(s.S[idx.BV]))
	}
	e.needTheory("indexing")
	capGuard(s)
	ln := e.strLenBV(s)
	e.addPanic(st, Not(And(BVBin(">=", idx, BVC(64, 0), true), BVBin("<", idx, ln, true))))
	return sAt(s, BVConv(idx, 64, 8, false))
}

func (e *Engine) strSlice(fr *Frame, x *ssa.Slice, s *Term, st *State) Value {
	var lo, hi *Term
	if x.Low != nil {
		lo = e.val(fr, x.Low).(*Term)
	} else {
		lo = BVC(64, 0)
	}
	ln := e.strLenBV(s)
	if x.High != nil {
		hi = e.val(fr, x.High).(*Term)
	} else {
		hi = ln
	}
	if s.IsConst && lo.IsConst && hi.IsConst {
		if lo.BV <= hi.BV && hi.BV <= uint64(len(s.S)) {
			return StrC(s.S[lo.BV:hi.BV])
		}
		e.addPanic(st, TrueT)
		st.pc = FalseT
		return StrC("")
	}
	e.needTheory("slicing")
	capGuard(s)
	bad := Or(BVBin("<", lo, BVC(64, 0), true), BVBin(">", lo, hi, true), BVBin(">", hi, ln, true))
	e.addPanic(st, bad)
	return sSubstr(s, BVConv(lo, 64, 8, false), BVConv(BVBin("-", hi, lo, true), 64, 8, false))
}
