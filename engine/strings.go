package main

// String operations. In atom mode (level G) only equality and operations on
// constants exist; in theory mode (level K) Go strings are SMT Strings with a
// stated length bound.

import (
	"go/token"
	"strings"

	"golang.org/x/tools/go/ssa"
)

func (e *Engine) needTheory(what string) {
	if !strTheory {
		panic(unsupported("%s on a symbolic string atom (level G strings only support equality)", what))
	}
}

func (e *Engine) strLenBV(s *Term) *Term {
	if s.IsConst {
		return BVC(64, uint64(len(s.S)))
	}
	e.needTheory("len")
	t := Int2BV(StrLen(s))
	if s.Max >= 0 {
		t.Max = s.Max
	} else {
		t.Max = int64(e.strMax * 4)
	}
	return t
}

func strCompare(op token.Token, x, y *Term) *Term {
	if x.IsConst && y.IsConst {
		switch op {
		case token.LSS:
			return BoolC(x.S < y.S)
		case token.LEQ:
			return BoolC(x.S <= y.S)
		case token.GTR:
			return BoolC(x.S > y.S)
		case token.GEQ:
			return BoolC(x.S >= y.S)
		}
	}
	if !strTheory {
		panic(unsupported("string ordering on symbolic atoms"))
	}
	switch op {
	case token.LSS:
		return mk(KBool, 0, "str.<", x, y)
	case token.LEQ:
		return mk(KBool, 0, "str.<=", x, y)
	case token.GTR:
		return mk(KBool, 0, "str.<", y, x)
	case token.GEQ:
		return mk(KBool, 0, "str.<=", y, x)
	}
	panic("strCompare")
}

// strIndex models s[i] (a byte).
func (e *Engine) strIndex(st *State, s, idx *Term) Value {
	if idx.W != 64 {
		idx = BVConv(idx, idx.W, 64, true)
	}
	if s.IsConst && idx.IsConst {
		if int(idx.BV) >= len(s.S) {
			e.addPanic(st, TrueT)
			st.pc = FalseT
			return BVC(8, 0)
		}
		return BVC(8, uint64(s.S[idx.BV]))
	}
	e.needTheory("indexing")
	ln := e.strLenBV(s)
	e.addPanic(st, Not(And(BVBin(">=", idx, BVC(64, 0), true), BVBin("<", idx, ln, true))))
	code := mk(KInt, 0, "str.to_code", mk(KStr, 0, "str.at", s, BV2Int(idx)))
	return mk(KBV, 8, "(_ int2bv 8)", code)
}

func substr(s *Term, lo, n *Term) *Term {
	if s.IsConst && lo.IsConst && n.IsConst {
		l, k := int(lo.BV), int(n.BV)
		if l >= 0 && k >= 0 && l+k <= len(s.S) {
			return StrC(s.S[l : l+k])
		}
	}
	t := mk(KStr, 0, "str.substr", s, lo, n)
	if n.IsConst {
		t.Max = int64(n.BV)
	} else if s.Max >= 0 {
		t.Max = s.Max
	}
	return t
}

func (e *Engine) strSlice(fr *Frame, x *ssa.Slice, s *Term, st *State) Value {
	var lo, hi *Term
	if x.Low != nil {
		lo = e.val(fr, x.Low).(*Term)
	} else {
		lo = BVC(64, 0)
	}
	ln := e.strLenBV(s)
	if x.High != nil {
		hi = e.val(fr, x.High).(*Term)
	} else {
		hi = ln
	}
	if s.IsConst && lo.IsConst && hi.IsConst {
		if lo.BV <= hi.BV && hi.BV <= uint64(len(s.S)) {
			return StrC(s.S[lo.BV:hi.BV])
		}
		e.addPanic(st, TrueT)
		st.pc = FalseT
		return StrC("")
	}
	e.needTheory("slicing")
	bad := Or(BVBin("<", lo, BVC(64, 0), true), BVBin(">", lo, hi, true), BVBin(">", hi, ln, true))
	e.addPanic(st, bad)
	return substr(s, BV2Int(lo), BV2Int(BVBin("-", hi, lo, true)))
}

// ---------- level-K library stubs over the string theory ----------

func strContains(s, sub *Term) *Term {
	if s.IsConst && sub.IsConst {
		return BoolC(strings.Contains(s.S, sub.S))
	}
	return mk(KBool, 0, "str.contains", s, sub)
}
func strPrefixOf(pre, s *Term) *Term {
	if s.IsConst && pre.IsConst {
		return BoolC(strings.HasPrefix(s.S, pre.S))
	}
	return mk(KBool, 0, "str.prefixof", pre, s)
}
func strSuffixOf(suf, s *Term) *Term {
	if s.IsConst && suf.IsConst {
		return BoolC(strings.HasSuffix(s.S, suf.S))
	}
	return mk(KBool, 0, "str.suffixof", suf, s)
}
func strIndexOf(s, sub *Term, from *Term) *Term { // Int
	if s.IsConst && sub.IsConst && from.IsConst && from.BV == 0 {
		return IntC(int64(strings.Index(s.S, sub.S)))
	}
	return mk(KInt, 0, "str.indexof", s, sub, from)
}
func strReplace(s, old, nw *Term) *Term { // first occurrence
	if s.IsConst && old.IsConst && nw.IsConst {
		return StrC(strings.Replace(s.S, old.S, nw.S, 1))
	}
	return mk(KStr, 0, "str.replace", s, old, nw)
}
