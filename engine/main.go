package main

// gosym: symbolic execution of Go harness functions (go/ssa) with SMT back end.
//
//   gosym -dir <module dir> -pkg <pattern> [-overlay o.json] -run <regexp> -out res.json
//
// Exit status: 0 = ran (verdicts are in the JSON), 2 = could not load.

import (
	"encoding/json"
	"flag"
	"fmt"
	"math/rand"
	"os"
	"regexp"
	"runtime/debug"
	"runtime/pprof"
	"sort"
	"strings"
	"sync"
	"time"

	"golang.org/x/tools/go/packages"
	"golang.org/x/tools/go/ssa"
	"golang.org/x/tools/go/ssa/ssautil"
)

type NondetVal struct {
	Tag string `json:"t"`
	V   string `json:"v"`
}

type OblResult struct {
	Label   string      `json:"label"`
	Kind    string      `json:"kind"` // violation | reach | witness | panic | excused | outside-excuse
	Expect  string      `json:"expect"`
	Verdict string      `json:"verdict"`
	Folded  bool        `json:"folded"`
	Ms      int64       `json:"ms"`
	Excuse  string      `json:"excuse,omitempty"`
	Model   []NondetVal `json:"model,omitempty"`
	Solver2 string      `json:"verdict2,omitempty"`
	Via     string      `json:"via,omitempty"`
}

type HarnessResult struct {
	Harness   string         `json:"harness"`
	Status    string         `json:"status"` // ok | error
	Error     string         `json:"error,omitempty"`
	Obls      []OblResult    `json:"obligations"`
	Funcs     map[string]int `json:"functions"`
	FnInstrs  map[string]int `json:"function_instrs"`
	Stubs     map[string]int `json:"stubs"`
	Instrs    int            `json:"instrs_executed"`
	Terms     int            `json:"terms"`
	Nondets   int            `json:"nondets"`
	Asserts   int            `json:"asserts"`
	ExecMs    int64          `json:"exec_ms"`
	SolveMs   int64          `json:"solve_ms"`
	FeasCalls int            `json:"feasibility_calls"`
	Sched     int            `json:"schedule_vars,omitempty"`
	Pruned    int            `json:"pruned_error_paths"`
	RangeMap  []string       `json:"range_over_map,omitempty"`
	Notes     []string       `json:"notes,omitempty"`
	Bounds    []string       `json:"stub_bounds,omitempty"`
	Events    int            `json:"events"`
}

type job struct {
	h      *HarnessResult
	idx    int
	q      *Query
	expect string
	model  bool
	nd     []Nondet
}

func main() {
	dir := flag.String("dir", ".", "module directory")
	pkgPat := flag.String("pkg", ".", "package pattern")
	overlay := flag.String("overlay", "", "go build overlay JSON ({\"Replace\":{virtual:real}})")
	run := flag.String("run", "^Harness", "regexp selecting harness functions")
	out := flag.String("out", "", "result JSON (default stdout)")
	strs := flag.String("strings", "atoms", "atoms | theory")
	strMax := flag.Int("strmax", 6, "bound on the length of nondet strings (theory mode)")
	workers := flag.Int("workers", 4, "solver processes")
	timeout := flag.Int("timeout", 60000, "per-query timeout (ms)")
	solver := flag.String("solver", "z3", "z3 | z3-new | cvc5")
	solver2 := flag.String("solver2", "", "second solver for cross-checking every obligation")
	unwind := flag.Int("unwind", 4, "unwinding bound before the solver is asked")
	dump := flag.String("dump", "", "directory for .smt2 dumps of every query")
	tags := flag.String("tags", "", "build tags")
	splitMax := flag.Int("splitmax", 4, "bound on the number of parts strings.Split may yield (theory mode)")
	prune := flag.Bool("prune", true, "ask the solver before executing diagnostic (error) blocks and prune the infeasible ones")
	feasSolver := flag.String("feassolver", "z3-new", "solver used for in-line feasibility checks")
	concrete := flag.String("concrete", "", "replay vector (JSON): execute the harness concretely with these draws")
	summarize := flag.String("summarize", "", "regexp of package-level functions replaced by the opaque summary S4 (user hooks)")
	witnesses := flag.Int("witnesses", 0, "extra randomised witness models per harness end (replayed natively by the runner)")
	seed := flag.Int64("seed", 0, "seed of the randomised witnesses")
	timeout2 := flag.Int("timeout2", 20000, "per-query timeout of the cross-check solver (ms); unknown = not cross-checked")
	fallback := flag.String("fallback", "", "solver an inconclusive query is retried on (portfolio)")
	mapOrder := flag.Bool("maporder", false, "range over a map visits its entries in an arbitrary order (schedule variables), as Go randomises it")
	doInit := flag.Bool("init", false, "execute the harness package's init (needed for level K globals)")
	labels := flag.String("labels", "", "regexp: only obligations whose label matches are emitted (no-panic is always kept)")
	flag.Parse()
	strTheory = *strs == "theory"
	t0 := time.Now()
	cfg := &packages.Config{Mode: packages.LoadAllSyntax, Dir: *dir}
	if *tags != "" {
		cfg.BuildFlags = []string{"-tags=" + *tags}
	}
	if *overlay != "" {
		b, err := os.ReadFile(*overlay)
		if err != nil {
			fatal(err)
		}
		var ov struct{ Replace map[string]string }
		if err := json.Unmarshal(b, &ov); err != nil {
			fatal(err)
		}
		cfg.Overlay = map[string][]byte{}
		for virt, real := range ov.Replace {
			c, err := os.ReadFile(real)
			if err != nil {
				fatal(err)
			}
			cfg.Overlay[virt] = c
		}
	}
	pkgs, err := packages.Load(cfg, *pkgPat)
	if err != nil {
		fatal(err)
	}
	if packages.PrintErrors(pkgs) > 0 {
		os.Exit(2)
	}
	prog, spkgs := ssautil.AllPackages(pkgs, ssa.InstantiateGenerics)
	prog.Build()
	loadMs := time.Since(t0).Milliseconds()
	if pf := os.Getenv("GOSYM_PROF"); pf != "" {
		f, _ := os.Create(pf)
		pprof.StartCPUProfile(f)
		go func() {
			time.Sleep(30 * time.Second)
			pprof.StopCPUProfile()
			f.Close()
			os.Exit(3)
		}()
	}


	rng := rand.New(rand.NewSource(*seed + 1))
	re := regexp.MustCompile(*run)
	var labelRe *regexp.Regexp
	if *labels != "" {
		labelRe = regexp.MustCompile(*labels)
	}
	type hf struct {
		name string
		fn   *ssa.Function
		pkg  *ssa.Package
	}
	var harnesses []hf
	targets := map[*ssa.Package]bool{}
	// packages of the same module as the harness package (e.g. the struct package of a differential
	// variant) have zero-initialised globals too; their init functions are not executed
	modPrefix := ""
	for _, sp := range spkgs {
		if sp != nil {
			if i := strings.Index(sp.Pkg.Path(), "/"); i > 0 && !strings.Contains(sp.Pkg.Path()[:i], ".") {
				modPrefix = sp.Pkg.Path()[:i+1]
			}
		}
	}
	if modPrefix != "" {
		for _, p := range prog.AllPackages() {
			if strings.HasPrefix(p.Pkg.Path(), modPrefix) {
				targets[p] = true
			}
		}
	}
	for _, sp := range spkgs {
		if sp == nil {
			continue
		}
		targets[sp] = true
		var names []string
		for n, m := range sp.Members {
			if f, ok := m.(*ssa.Function); ok && strings.HasPrefix(n, "Harness") && re.MatchString(n) && f.Signature.Params().Len() == 0 {
				names = append(names, n)
			}
		}
		sort.Strings(names)
		for _, n := range names {
			harnesses = append(harnesses, hf{n, sp.Func(n), sp})
		}
	}

	var results []*HarnessResult
	var jobs []job
	for hi, h := range harnesses {
		res := &HarnessResult{Harness: h.name, Status: "ok"}
		results = append(results, res)
		e := &Engine{prog: prog, targets: targets, inited: map[*ssa.Package]bool{}, globals: map[*ssa.Global]*Obj{},
			gheap: map[*Obj]Value{}, funcs: map[string]int{}, fnInstrs: map[string]int{}, stubs: map[string]int{},
			stack: map[ssa.Instruction]int{}, unwind: *unwind, panicC: FalseT, strMax: *strMax, solverName: *feasSolver, prune: *prune, mapOrder: *mapOrder,
			prefix: fmt.Sprintf("h%d_", hi), uf: map[string]*Term{}, splitMax: *splitMax, bounds: map[string]bool{}, optRecs: map[*Obj]*StructV{}}
		if *summarize != "" {
			e.summarize = regexp.MustCompile(*summarize)
		}
		if *concrete != "" {
			b, err := os.ReadFile(*concrete)
			if err != nil {
				fatal(err)
			}
			e.concrete = []NondetVal{}
			if err := json.Unmarshal(b, &e.concrete); err != nil {
				fatal(err)
			}
		}
		t1 := time.Now()
		func() {
			defer func() {
				if r := recover(); r != nil {
					if os.Getenv("GOSYM_DEBUG") != "" {
						fmt.Fprintf(os.Stderr, "%v\n%s\n", r, debug.Stack())
					}
					res.Status = "error"
					if u, ok := r.(unsupportedErr); ok {
						res.Error = "unsupported: " + u.msg
					} else {
						res.Error = fmt.Sprintf("engine failure: %v", r)
						if os.Getenv("GOSYM_DEBUG") != "" {
							panic(r)
						}
					}
				}
			}()
			st := &State{heap: map[*Obj]Value{}, pc: TrueT, assumes: TrueT}
			if *doInit {
				st = e.runInit(h.pkg, st)
			}
			_, end := e.call(h.fn, nil, nil, st)
			finalAssumes := end.assumes
			// panic obligation
			add := func(label, kind, expect string, q *Query, model bool, excuse string) {
				if labelRe != nil && label != "no-panic" && kind != "witness" && !labelRe.MatchString(label) {
					return
				}
				res.Obls = append(res.Obls, OblResult{Label: label, Kind: kind, Expect: expect, Excuse: excuse})
				jobs = append(jobs, job{h: res, idx: len(res.Obls) - 1, q: q, expect: expect, model: model, nd: e.nondets})
			}
			add("no-panic", "panic", "unsat", buildSliced(finalAssumes, e.panicC), true, "")
			reachSeen := map[[2]int]bool{}
			for _, a := range e.asserts {
				if labelRe != nil && a.Kind != "reach" && !labelRe.MatchString(a.Label) {
					continue
				}
				switch a.Kind {
				case "assert":
					add(a.Label, "violation", "unsat", buildSliced(a.Assumes, a.PC, Not(a.Cond)), true, "")
				case "except":
					add(a.Label, "outside-excuse", "unsat", buildSliced(a.Assumes, a.PC, Not(a.Excused), Not(a.Cond)), true, a.Excuse)
					add(a.Label, "excused", "any", buildSliced(a.Assumes, a.PC, a.Excused, Not(a.Cond)), true, a.Excuse)
				case "nopanic":
					add(a.Label, "panic", "unsat", buildSliced(a.Assumes, Not(a.Cond)), true, "")
					continue
				case "reach":
					add(a.Label, "witness", "sat", buildQuery(a.Assumes, a.PC), true, "")
					// diversified witnesses: random values for a random subset of the draws; each
					// satisfiable one is replayed natively by the runner (translator validation)
					for k := 0; k < *witnesses; k++ {
						cs := randomDraws(e.nondets, rng)
						add(a.Label, "witness-random", "any", buildQuery(append([]*Term{a.Assumes, a.PC}, cs...)...), true, "")
					}
					continue
				}
				key := [2]int{a.Assumes.id, a.PC.id}
				if !reachSeen[key] {
					reachSeen[key] = true
					add(a.Label, "reach", "sat", buildSliced(a.Assumes, a.PC), false, "")
				}
			}
		}()
		res.ExecMs = time.Since(t1).Milliseconds()
		res.Funcs, res.FnInstrs, res.Stubs = e.funcs, e.fnInstrs, e.stubs
		res.Instrs, res.Terms, res.Nondets, res.Asserts = e.ninstr, len(termList), len(e.nondets), len(e.asserts)
		res.FeasCalls, res.RangeMap, res.Notes, res.Pruned = e.nfeas, e.rangeMap, e.notes, e.npruned
		res.Sched = e.nsched
		for b := range e.bounds {
			res.Bounds = append(res.Bounds, b)
		}
		sort.Strings(res.Bounds)
		res.Events = len(e.events)
		if e.feas != nil {
			e.feas.Close()
		}
		if res.Status != "ok" {
			// drop queued jobs of a failed harness
			kept := jobs[:0]
			for _, j := range jobs {
				if j.h != res {
					kept = append(kept, j)
				}
			}
			jobs = kept
			res.Obls = nil
		}
	}

	// ---------- solve ----------
	if *dump != "" {
		os.MkdirAll(*dump, 0755)
		for i, j := range jobs {
			if j.q.Const == "" {
				os.WriteFile(fmt.Sprintf("%s/q%04d_%s.smt2", *dump, i, sanitize(j.h.Harness+"_"+j.h.Obls[j.idx].Label)), []byte(j.q.Script+"(check-sat)\n"), 0644)
			}
		}
	}
	ch := make(chan job)
	var wg sync.WaitGroup
	var mu sync.Mutex
	for w := 0; w < *workers; w++ {
		wg.Add(1)
		go func() {
			defer wg.Done()
			var s, s2, sf *Solver
			defer func() { s.Close(); s2.Close(); sf.Close() }()
			for j := range ch {
				o := &j.h.Obls[j.idx]
				if j.q.Const != "" {
					o.Verdict, o.Folded = j.q.Const, true
					continue
				}
				if s == nil {
					var err error
					if s, err = NewSolver(*solver); err != nil {
						o.Verdict = "error:" + err.Error()
						continue
					}
				}
				t := time.Now()
				o.Verdict = s.Check(j.q.Script, *timeout)
				if o.Verdict == "sat" && j.model {
					vals := modelValues(s, j.q, j.nd)
					if j.q.Rest != nil && j.q.Rest.Const == "" && vals != nil {
						// complete the model on the sliced-away (variable-disjoint) assumptions
						if v := s.Check(j.q.Rest.Script, *timeout); v == "sat" {
							for k, x := range modelValues(s, j.q.Rest, j.nd) {
								vals[k] = x
							}
						} else {
							o.Verdict = "error:model completion on sliced assumptions: " + v
						}
					}
					o.Model = assembleModel(vals, j)
				}
				if o.Verdict != "sat" && o.Verdict != "unsat" && *fallback != "" && *fallback != *solver {
					// portfolio: an inconclusive answer is retried on the other solver
					if sf == nil {
						sf, _ = NewSolver(*fallback)
					}
					if sf != nil {
						v := sf.Check(j.q.Script, *timeout)
						if v == "sat" || v == "unsat" {
							o.Verdict = v
							o.Via = *fallback
							if v == "sat" && j.model {
								vals := modelValues(sf, j.q, j.nd)
								if j.q.Rest != nil && j.q.Rest.Const == "" && vals != nil {
									if v2 := sf.Check(j.q.Rest.Script, *timeout); v2 == "sat" {
										for k, x := range modelValues(sf, j.q.Rest, j.nd) {
											vals[k] = x
										}
									}
								}
								o.Model = assembleModel(vals, j)
							}
						}
					}
				}
				o.Ms = time.Since(t).Milliseconds()
				if *solver2 != "" {
					if s2 == nil {
						s2, _ = NewSolver(*solver2)
					}
					if s2 != nil {
						o.Solver2 = s2.Check(j.q.Script, *timeout2)
					}
				}
				mu.Lock()
				j.h.SolveMs += o.Ms
				mu.Unlock()
			}
		}()
	}
	for _, j := range jobs {
		ch <- j
	}
	close(ch)
	wg.Wait()

	outv := map[string]interface{}{
		"load_ms":   loadMs,
		"solver":    *solver,
		"solver2":   *solver2,
		"strings":   *strs,
		"strmax":    *strMax,
		"unwind":    *unwind,
		"timeout":   *timeout,
		"harnesses": results,
	}
	b, _ := json.MarshalIndent(outv, "", " ")
	if *out == "" {
		os.Stdout.Write(b)
	} else if err := os.WriteFile(*out, b, 0644); err != nil {
		fatal(err)
	}
	if os.Getenv("GOSYM_SUMMARY") != "" {
		for _, r := range results {
			fmt.Fprintf(os.Stderr, "%s: %s %s exec=%dms solve=%dms instrs=%d\n", r.Harness, r.Status, r.Error, r.ExecMs, r.SolveMs, r.Instrs)
			for _, o := range r.Obls {
				bad := (o.Expect == "unsat" && o.Verdict != "unsat") || (o.Expect == "sat" && o.Verdict != "sat")
				if bad || os.Getenv("GOSYM_SUMMARY") == "all" {
					fmt.Fprintf(os.Stderr, "   %-40s %-14s expect=%-5s got=%-8s %dms\n", o.Label, o.Kind, o.Expect, o.Verdict, o.Ms)
				}
			}
		}
	}
}

func sanitize(s string) string {
	return regexp.MustCompile(`[^A-Za-z0-9_.-]+`).ReplaceAllString(s, "_")
}

func fatal(err error) {
	fmt.Fprintln(os.Stderr, "gosym:", err)
	os.Exit(2)
}

// modelValues reads the values of the nondet variables and string literals of a query after sat.
func modelValues(s *Solver, q *Query, nd []Nondet) map[string]string {
	inCone := map[string]bool{}
	for _, n := range q.Names {
		inCone[n] = true
	}
	var names []string
	for _, d := range nd {
		if inCone[d.Name] {
			names = append(names, d.Name)
		}
	}
	var litNames []string
	for n := range q.Lits {
		litNames = append(litNames, n)
	}
	sort.Strings(litNames)
	vals := map[string]string{}
	if len(names)+len(litNames) > 0 {
		var err error
		vals, err = s.Values(append(append([]string{}, names...), litNames...))
		if err != nil {
			return map[string]string{"@error": err.Error()}
		}
	}
	// atom mode: translate model atoms of literals back to their text
	for _, ln := range litNames {
		vals["@lit:"+vals[ln]] = q.Lits[ln]
	}
	return vals
}

// assembleModel orders the values by nondet creation order (the replay vector).
func assembleModel(vals map[string]string, j job) []NondetVal {
	if e, ok := vals["@error"]; ok {
		return []NondetVal{{Tag: "error", V: e}}
	}
	fresh := map[string]string{}
	var model []NondetVal
	for _, nd := range j.nd {
		v, ok := vals[nd.Name]
		nv := NondetVal{Tag: nd.Tag}
		switch nd.Tag {
		case "bool":
			nv.V = "false"
			if ok && v == "true" {
				nv.V = "true"
			}
		case "str":
			switch {
			case !ok:
				nv.V = ""
			case strTheory:
				nv.V = decodeBVStr(v)
			default:
				if lit, isLit := vals["@lit:"+v]; isLit {
					nv.V = lit
				} else {
					if _, seen := fresh[v]; !seen {
						fresh[v] = fmt.Sprintf("~s%d", len(fresh)+1)
					}
					nv.V = fresh[v]
				}
			}
		default:
			n := uint64(0)
			if ok {
				n, _ = decodeBV(v)
			}
			nv.V = fmt.Sprint(n)
		}
		model = append(model, nv)
	}
	return model
}

// runInit executes the package initialiser of the harness package tolerantly:
// global initialisers that cannot be interpreted are poisoned, not ignored.
func (e *Engine) runInit(pkg *ssa.Package, st *State) *State {
	init := pkg.Func("init")
	if init == nil || len(init.Blocks) == 0 {
		return st
	}
	e.tolerant = true
	defer func() { e.tolerant = false }()
	e.inited[pkg] = true
	saveF, saveS, saveI := e.funcs, e.stubs, e.fnInstrs
	e.funcs, e.stubs, e.fnInstrs = map[string]int{}, map[string]int{}, map[string]int{}
	defer func() { e.funcs, e.stubs, e.fnInstrs = saveF, saveS, saveI; e.ninstr = 0 }()
	func() {
		defer func() {
			if r := recover(); r != nil {
				e.notes = append(e.notes, fmt.Sprintf("package init aborted: %v", r))
			}
		}()
		_, st2 := e.call(init, nil, nil, st)
		if st2.pc != FalseT {
			st = st2
		}
	}()
	e.panicC = FalseT
	e.asserts = nil
	st.pc = TrueT
	return st
}

var boundaryInts = []uint64{0, 1, 2, 0x7f, 0x80, 0xff, 0x7fff, 0x8000, 0x7fffffff, 0x80000000, 0xffffffff, 1 << 53, 1<<53 + 1,
	0x7fffffffffffffff, 0x8000000000000000, 0xffffffffffffffff, 0xfffffffffffffffe}

// randomDraws constrains a random subset of the nondet draws to random (boundary-biased) values.
func randomDraws(nd []Nondet, rng *rand.Rand) []*Term {
	var cs []*Term
	for _, d := range nd {
		if d.T == nil || rng.Intn(100) < 35 {
			continue
		}
		switch d.Tag {
		case "bool":
			cs = append(cs, Eq(d.T, BoolC(rng.Intn(2) == 0)))
		case "len":
			if d.Max >= 0 {
				cs = append(cs, Eq(d.T, BVC(64, uint64(rng.Int63n(d.Max+1)))))
			}
		case "str":
			cs = append(cs, Eq(d.T, StrC([]string{"", "a", "b", "ab", "x_y"}[rng.Intn(5)])))
		case "i32", "u32", "i64", "u64", "f32", "f64":
			v := boundaryInts[rng.Intn(len(boundaryInts))]
			if rng.Intn(3) == 0 {
				v = rng.Uint64()
			}
			cs = append(cs, Eq(d.T, BVC(d.T.W, v)))
		}
	}
	return cs
}
