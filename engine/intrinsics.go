package main

// Intrinsics: the nondet runtime (vrt), summaries and environment stubs.
// Every entry here is part of the claim and is listed in the evidence.

import (
	"fmt"
	"go/types"
	"sort"
	"strings"
	"unicode"

	"golang.org/x/tools/go/ssa"
)

func (e *Engine) addPanic(st *State, c *Term) {
	if c == FalseT || st.pc == FalseT {
		return
	}
	e.panicC = Or(e.panicC, And(st.pc, c))
}

func (e *Engine) reach(st *State) *Term { return And(st.pc, Not(e.panicC)) }

func vrtName(fn *ssa.Function) string {
	if fn.Pkg == nil {
		return ""
	}
	n := fn.Name()
	if fn.Pkg.Pkg.Name() == "vrt" && fn.Signature.Recv() == nil {
		return n
	}
	if fn.Pkg.Pkg.Name() == "main" && strings.HasPrefix(n, "vrt") && len(n) > 3 && unicode.IsUpper(rune(n[3])) && fn.Signature.Recv() == nil {
		return n[3:]
	}
	return ""
}

func (e *Engine) needTruePC(st *State, what string) {
	if st.pc != TrueT {
		panic(unsupported("%s drawn under a symbolic path condition (harness discipline: draw unconditionally)", what))
	}
}

func constStr(v Value, what string) string {
	t, ok := v.(*Term)
	if !ok || !t.IsConst || t.K != KStr {
		panic(unsupported("%s must be a constant string", what))
	}
	return t.S
}

func (e *Engine) intrinsic(fn *ssa.Function, name string, args []Value, st *State) (Value, *State, bool) {
	if vn := vrtName(fn); vn != "" {
		if v, ok := e.vrtIntrinsic(fn, vn, args, st); ok {
			return v, st, true
		}
	}
	if e.tolerant && fn.Name() == "init" && !e.targets[fn.Pkg] {
		return nil, st, true
	}
	if e.summarize != nil && fn.Signature.Recv() == nil && e.summarize.MatchString(fn.Name()) {
		return e.summaryS4(fn, args, st), st, true
	}
	switch name {
	case "context.Background", "context.TODO":
		return &IfaceV{Alts: []IAlt{{G: TrueT, T: types.Typ[types.Int], V: BVC(64, 0)}}}, st, true
	case "github.com/hashicorp/terraform-plugin-go/tftypes.NewValue":
		if !isZeroNilConst(args[1]) {
			panic(unsupported("tftypes.NewValue with a non-nil value (summary S1 covers null values only)"))
		}
		return &OpaqueV{Name: "nullvalue", Arg: args[0]}, st, true
	case "(github.com/hashicorp/terraform-plugin-go/tftypes.Value).IsKnown",
		"(github.com/hashicorp/terraform-plugin-go/tftypes.Value).IsNull":
		if o, ok := args[0].(*OpaqueV); !ok || o.Name != "nullvalue" {
			panic(unsupported("%s on a value that is not the S1 null value", name))
		}
		return TrueT, st, true
	case "math.Abs":
		t := args[0].(*Term)
		if t.IsConst {
			v := fpVal(t)
			if v < 0 {
				v = -v
			}
			return FPC(t.W, v), st, true
		}
		return mk(KFP, t.W, "fp.abs", t), st, true
	case "math.IsNaN":
		t := args[0].(*Term)
		return mk(KBool, 0, "fp.isNaN", t), st, true
	case "math.Float64bits", "math.Float32bits":
		t := args[0].(*Term)
		if t.IsConst {
			return BVC(t.W, t.BV), st, true
		}
		// an FP term built from a bit-vector draw gives its bits back; otherwise z3's fp.to_ieee_bv
		if strings.HasPrefix(t.Op, "(_ to_fp") && len(t.Args) == 1 && t.Args[0].K == KBV {
			return t.Args[0], st, true
		}
		return mk(KBV, t.W, "fp.to_ieee_bv", t), st, true
	case "math.Float64frombits", "math.Float32frombits":
		return FPFromBV(args[0].(*Term)), st, true
	case "fmt.Sprintf":
		return e.sprintf(args[0], args[1], st), st, true
	case "fmt.Errorf":
		msg := e.sprintf(args[0], args[1], st)
		return e.newError(st, msg), st, true
	case "errors.New":
		return e.newError(st, args[0].(*Term)), st, true
	}
	if v, st2, ok := e.kIntrinsic(fn, name, args, st); ok {
		return v, st2, true
	}
	return nil, st, false
}

func (e *Engine) invokeIntrinsic(recv *IfaceV, m *types.Func, args []Value, st *State) (Value, *State, bool) {
	switch m.Name() {
	case "TerraformType":
		sig := m.Type().(*types.Signature)
		if sig.Results().Len() == 1 && strings.HasSuffix(sig.Results().At(0).Type().String(), "tftypes.Type") {
			return &OpaqueV{Name: "tftype", Arg: recv}, st, true
		}
	}
	return nil, st, false
}

func (e *Engine) newError(st *State, msg *Term) Value {
	pkg := e.prog.ImportedPackage("errors")
	if pkg == nil {
		panic(unsupported("package errors not loaded"))
	}
	named := pkg.Type("errorString").Type()
	o := newObj(named)
	sv := zero(named).(*StructV)
	sv.F[0] = msg
	st.heap[o] = sv
	return &IfaceV{Alts: []IAlt{{G: TrueT, T: types.NewPointer(named), V: &PtrV{Alts: []PAlt{{G: TrueT, O: o}}}}}}
}

type iteLeaf struct {
	G *Term
	V *Term
}

var leavesMemo = map[int]map[*Term]*Term{}

// leavesOf expands a term that is an ite-DAG over constants into constant -> guard (memoised, so
// shared sub-DAGs are visited once and equal constants are coalesced).
func leavesOf(t *Term) map[*Term]*Term {
	if m, ok := leavesMemo[t.id]; ok {
		return m
	}
	var m map[*Term]*Term
	switch {
	case t.IsConst:
		m = map[*Term]*Term{t: TrueT}
	case t.Op == "ite":
		la, lb := leavesOf(t.Args[1]), leavesOf(t.Args[2])
		if la != nil && lb != nil {
			m = map[*Term]*Term{}
			for v, g := range la {
				m[v] = And(t.Args[0], g)
			}
			nc := Not(t.Args[0])
			for v, g := range lb {
				if prev, ok := m[v]; ok {
					m[v] = Or(prev, And(nc, g))
				} else {
					m[v] = And(nc, g)
				}
			}
			if len(m) > 64 {
				m = nil
			}
		}
	}
	leavesMemo[t.id] = m
	return m
}

// iteLeaves lists the guarded constant values of t in a deterministic order.
func iteLeaves(t *Term, g *Term, out *[]iteLeaf, limit int) bool {
	m := leavesOf(t)
	if m == nil || len(m) > limit {
		return false
	}
	keys := make([]*Term, 0, len(m))
	for v := range m {
		keys = append(keys, v)
	}
	sort.Slice(keys, func(i, j int) bool { return keys[i].id < keys[j].id })
	for _, v := range keys {
		*out = append(*out, iteLeaf{And(g, m[v]), v})
	}
	return true
}

func (e *Engine) sprintf(format Value, va Value, st *State) *Term {
	f, ok := format.(*Term)
	if ok && f.IsConst {
		sl := va.(*SliceV)
		if sl.Len.IsConst {
			cells := sliceCells(st, sl)
			// every argument: a list of guarded constant values
			var argLeaves [][]iteLeaf
			var argTypes []types.Type
			conc := true
			for i := 0; i < int(sl.Len.BV) && conc; i++ {
				iv, ok := cells[i].(*IfaceV)
				if !ok || len(iv.Alts) != 1 || iv.Alts[0].T == nil {
					conc = false
					break
				}
				t, ok := iv.Alts[0].V.(*Term)
				if !ok {
					conc = false
					break
				}
				var ls []iteLeaf
				if !iteLeaves(t, TrueT, &ls, 48) {
					conc = false
					break
				}
				argLeaves = append(argLeaves, ls)
				argTypes = append(argTypes, iv.Alts[0].T)
			}
			if conc {
				goVal := func(t *Term, ty types.Type) interface{} {
					switch t.K {
					case KStr:
						return t.S
					case KBool:
						return t.B
					case KBV:
						signed := true
						if b, ok := ty.Underlying().(*types.Basic); ok {
							_, signed = bvWidth(b)
						}
						if signed {
							return sext(t.BV, t.W)
						}
						return t.BV
					}
					return nil
				}
				total := 1
				for _, ls := range argLeaves {
					total *= len(ls)
				}
				if total <= 256 {
					var res *Term
					idx := make([]int, len(argLeaves))
					for n := 0; n < total; n++ {
						g := TrueT
						goargs := make([]interface{}, len(argLeaves))
						for i, ls := range argLeaves {
							g = And(g, ls[idx[i]].G)
							goargs[i] = goVal(ls[idx[i]].V, argTypes[i])
						}
						v := StrC(fmt.Sprintf(f.S, goargs...))
						if res == nil {
							res = v
						} else {
							res = Ite(g, v, res)
						}
						for i := range idx {
							idx[i]++
							if idx[i] < len(argLeaves[i]) {
								break
							}
							idx[i] = 0
						}
					}
					if res == nil {
						res = StrC(fmt.Sprintf(f.S))
					}
					return res
				}
			}
		}
	}
	e.stubs["fmt.Sprintf(opaque result)"]++
	return e.freshStr(st, "fmt", e.strMax)
}

func (e *Engine) vrtIntrinsic(fn *ssa.Function, vn string, args []Value, st *State) (Value, bool) {
	switch vn {
	case "Bool":
		e.needTruePC(st, "vrt.Bool")
		return e.nondet("bool", KBool, 0), true
	case "Int32":
		e.needTruePC(st, "vrt.Int32")
		return e.nondet("i32", KBV, 32), true
	case "Int64":
		e.needTruePC(st, "vrt.Int64")
		return e.nondet("i64", KBV, 64), true
	case "Uint32":
		e.needTruePC(st, "vrt.Uint32")
		return e.nondet("u32", KBV, 32), true
	case "Uint64":
		e.needTruePC(st, "vrt.Uint64")
		return e.nondet("u64", KBV, 64), true
	case "Float32":
		e.needTruePC(st, "vrt.Float32")
		return FPFromBV(e.nondet("f32", KBV, 32)), true
	case "Float64":
		e.needTruePC(st, "vrt.Float64")
		return FPFromBV(e.nondet("f64", KBV, 64)), true
	case "String":
		e.needTruePC(st, "vrt.String")
		if strTheory && e.concrete == nil {
			v := e.freshStr(st, "nd_str", e.strMax)
			e.nondets = append(e.nondets, Nondet{Name: v.Name, Tag: "str", T: v, Max: -1})
			return v, true
		}
		return e.nondet("str", KStr, 0), true
	case "Len":
		e.needTruePC(st, "vrt.Len")
		mx := args[0].(*Term)
		if !mx.IsConst {
			panic(unsupported("vrt.Len bound must be constant"))
		}
		v := e.nondet("len", KBV, 64)
		if v.IsConst {
			return v, true
		}
		// the assumption is emitted before the bound annotation may be used
		st.assumes = And(st.assumes, BVBin("<=", v, mx, false))
		v.Max = int64(mx.BV)
		e.nondets[len(e.nondets)-1].Max = int64(mx.BV)
		return v, true
	case "Time":
		e.needTruePC(st, "vrt.Time")
		tt := fn.Signature.Results().At(0).Type()
		sv := zero(tt).(*StructV)
		if len(sv.F) != 3 {
			panic(unsupported("unexpected layout of time.Time"))
		}
		sv.F[0] = e.nondet("u64", KBV, 64)
		sv.F[1] = e.nondet("i64", KBV, 64)
		b := e.nondet("bool", KBool, 0)
		if e.locObj == nil {
			lt := tt.Underlying().(*types.Struct).Field(2).Type().(*types.Pointer).Elem()
			e.locObj = newObj(lt)
			e.gheap[e.locObj] = &OpaqueV{Name: "time.Location"}
		}
		sv.F[2] = &PtrV{Alts: []PAlt{{G: b}, {G: Not(b), O: e.locObj}}}
		return sv, true
	case "Assume":
		c := args[0].(*Term)
		st.assumes = And(st.assumes, Implies(e.reach(st), c))
		return nil, true
	case "Assert":
		e.asserts = append(e.asserts, Assertion{Label: constStr(args[0], "assert label"), Kind: "assert",
			PC: e.reach(st), Cond: args[1].(*Term), Assumes: st.assumes})
		return nil, true
	case "AssertExcept":
		e.asserts = append(e.asserts, Assertion{Label: constStr(args[0], "assert label"), Kind: "except",
			PC: e.reach(st), Cond: args[1].(*Term), Assumes: st.assumes,
			Excuse: constStr(args[2], "excuse name"), Excused: args[3].(*Term)})
		return nil, true
	case "Reach":
		e.asserts = append(e.asserts, Assertion{Label: constStr(args[0], "reach label"), Kind: "reach",
			PC: e.reach(st), Cond: TrueT, Assumes: st.assumes})
		return nil, true
	case "CheckNoPanic":
		e.asserts = append(e.asserts, Assertion{Label: constStr(args[0], "label"), Kind: "nopanic",
			PC: TrueT, Cond: Not(e.panicC), Assumes: st.assumes})
		return nil, true
	case "SameType":
		return e.typeEq(st, args[0], args[1]), true
	case "FieldOptions":
		// vrtFieldOptions(o vrtOpts) *descriptor.FieldOptions: the option record travels with the object
		rec, ok := args[0].(*StructV)
		if !ok {
			panic(unsupported("vrtFieldOptions argument"))
		}
		pt := fn.Signature.Results().At(0).Type().Underlying().(*types.Pointer).Elem()
		o := newObj(pt)
		st.heap[o] = zero(pt)
		e.optRecs[o] = rec
		return &PtrV{Alts: []PAlt{{G: TrueT, O: o}}}, true
	case "Printable":
		t := args[0].(*Term)
		if t.IsConst {
			ok := true
			for i := 0; i < len(t.S); i++ {
				c := t.S[i]
				if !(c >= 32 && c <= 126) && c != '\t' && c != '\n' && c != '\r' {
					ok = false
				}
			}
			return BoolC(ok), true
		}
		return sEach(t, func(c *Term) *Term {
			return Or(byteRange(c, 32, 126), Eq(c, BVC(8, 9)), Eq(c, BVC(8, 10)), Eq(c, BVC(8, 13)))
		}), true
	case "Ident":
		t := args[0].(*Term)
		return sEach(t, func(c *Term) *Term {
			return Or(byteRange(c, 'a', 'z'), byteRange(c, 'A', 'Z'), byteRange(c, '0', '9'), Eq(c, BVC(8, '.')), Eq(c, BVC(8, '_')))
		}), true
	case "Path":
		t := args[0].(*Term)
		return sEach(t, func(c *Term) *Term {
			return Or(byteRange(c, 'a', 'z'), byteRange(c, 'A', 'Z'), byteRange(c, '0', '9'), Eq(c, BVC(8, '_')), Eq(c, BVC(8, '/')), Eq(c, BVC(8, '-')))
		}), true
	case "DotPath":
		// like Path, dots allowed (gopkg.in/yaml.v2, example.com/api.v2)
		t := args[0].(*Term)
		return sEach(t, func(c *Term) *Term {
			return Or(byteRange(c, 'a', 'z'), byteRange(c, 'A', 'Z'), byteRange(c, '0', '9'), Eq(c, BVC(8, '_')), Eq(c, BVC(8, '/')), Eq(c, BVC(8, '-')), Eq(c, BVC(8, '.')))
		}), true
	case "Emitted":
		return StrC("@emitted"), true
	case "Count":
		marker := constStr(args[1], "vrtCount marker")
		total := BVC(64, 0)
		for _, ev := range e.events {
			if ev.Name == marker {
				total = BVBin("+", total, Ite(ev.G, BVC(64, 1), BVC(64, 0)), true)
			}
		}
		return total, true
	case "ConfigFile":
		// the environment holds one configuration file: unreadable, unparsable, listing one type, with an
		// explicit empty list (`types: []`), or without a `types` key
		p := e.freshStr(st, "cfgpath", 6)
		st.assumes = And(st.assumes, Not(Eq(p, StrC(""))), sEach(p, func(c *Term) *Term { return byteRange(c, 33, 126) }))
		e.cfgFile = &cfgFileEnv{Path: p, ReadErr: args[0].(*Term), YamlErr: args[1].(*Term), Empty: args[2].(*Term), Typ: args[3].(*Term)}
		return p, true
	case "ConfigFileS":
		// like ConfigFile, and the file also holds a `suffixes` map of up to two entries (an entry with an
		// empty key is absent)
		p := e.freshStr(st, "cfgpath", 6)
		st.assumes = And(st.assumes, Not(Eq(p, StrC(""))), sEach(p, func(c *Term) *Term { return byteRange(c, 33, 126) }))
		e.cfgFile = &cfgFileEnv{Path: p, ReadErr: args[0].(*Term), YamlErr: args[1].(*Term), Empty: args[2].(*Term), Typ: args[3].(*Term),
			Suf: [][2]*Term{{args[4].(*Term), args[5].(*Term)}, {args[6].(*Term), args[7].(*Term)}}}
		return p, true
	case "Generator":
		// vrtGenerator() *generator.Generator: an opaque non-nil generator over the fixed universe
		pt := fn.Signature.Results().At(0).Type().Underlying().(*types.Pointer).Elem()
		o := newObj(pt)
		st.heap[o] = &OpaqueV{Name: "generator"}
		return &PtrV{Alts: []PAlt{{G: TrueT, O: o}}}, true
	case "Event":
		// vrt.Event(name) records a marker under the current reach condition
		e.events = append(e.events, Event{Name: constStr(args[0], "event name"), G: e.reach(st)})
		return nil, true
	}
	return nil, false
}

// typeEq is deep equality of attr.Type values (maps compared extensionally).
func (e *Engine) typeEq(st *State, a, b Value) *Term {
	switch x := a.(type) {
	case *Term:
		return Eq(x, b.(*Term))
	case *StructV:
		y, ok := b.(*StructV)
		if !ok || len(x.F) != len(y.F) {
			return FalseT
		}
		var cs []*Term
		for i := range x.F {
			cs = append(cs, e.typeEq(st, x.F[i], y.F[i]))
		}
		return And(cs...)
	case *IfaceV:
		y := b.(*IfaceV)
		var ds []*Term
		for _, p := range x.Alts {
			for _, q := range y.Alts {
				switch {
				case p.T == nil && q.T == nil:
					ds = append(ds, And(p.G, q.G))
				case p.T != nil && q.T != nil && types.Identical(p.T, q.T):
					ds = append(ds, And(p.G, q.G, e.typeEq(st, p.V, q.V)))
				}
			}
		}
		return Or(ds...)
	case *MapV:
		y := b.(*MapV)
		ea, eb := mapEntries(st, x), mapEntries(st, y)
		var cs []*Term
		for _, p := range ea {
			var ds []*Term
			for _, q := range eb {
				ds = append(ds, And(q.P, keyEq(p.K, q.K), e.typeEq(st, p.V, q.V)))
			}
			cs = append(cs, Implies(p.P, Or(ds...)))
		}
		for _, q := range eb {
			var ds []*Term
			for _, p := range ea {
				ds = append(ds, And(p.P, keyEq(p.K, q.K)))
			}
			cs = append(cs, Implies(q.P, Or(ds...)))
		}
		return And(cs...)
	case *PtrV:
		return valueEq(a, b)
	case *OpaqueV:
		return valueEq(a, b)
	case *SliceV:
		y := b.(*SliceV)
		if x.Len.IsConst && y.Len.IsConst {
			if x.Len.BV != y.Len.BV {
				return FalseT
			}
			ca, cb := sliceCells(st, x), sliceCells(st, y)
			var cs []*Term
			for i := 0; i < int(x.Len.BV); i++ {
				cs = append(cs, e.typeEq(st, ca[i], cb[i]))
			}
			return And(cs...)
		}
	}
	panic(unsupported("SameType on %T", a))
}

func mapEntries(st *State, m *MapV) []MEnt {
	var out []MEnt
	for _, ma := range m.Alts {
		if ma.O == nil {
			continue
		}
		for _, en := range st.heap[ma.O].(*MapC).Ents {
			if p := And(ma.G, en.P); p != FalseT {
				out = append(out, MEnt{P: p, K: en.K, V: en.V})
			}
		}
	}
	return out
}

type cfgFileEnv struct {
	Path             *Term
	ReadErr, YamlErr *Term
	Empty            *Term // the file says `types: []`: an allocated map without entries
	Typ              *Term
	Suf              [][2]*Term // `suffixes` entries (key, value); empty key = absent
}


// summaryS4: a user hook the engine does not interpret (string-theory code of the repository's own
// test hooks). Results: an interface result is the last interface argument (the hook's "current
// value"), other results are zero; every pointer argument to a scalar receives a fresh value.
func (e *Engine) summaryS4(fn *ssa.Function, args []Value, st *State) Value {
	e.stubs["S4 "+fn.Name()+" (opaque user hook)"]++
	params := fn.Signature.Params()
	for i := 0; i < params.Len(); i++ {
		pt, ok := params.At(i).Type().Underlying().(*types.Pointer)
		if !ok {
			continue
		}
		var nv Value
		switch b := pt.Elem().Underlying().(type) {
		case *types.Basic:
			switch {
			case b.Info()&types.IsString != 0:
				nv = e.freshStr(st, "hook", e.strMax)
			case b.Info()&types.IsBoolean != 0:
				nv = e.fresh("hook", KBool, 0)
			case b.Info()&types.IsInteger != 0:
				w, _ := bvWidth(b)
				nv = e.fresh("hook", KBV, w)
			}
		}
		if nv == nil {
			// non-scalar hook target (e.g. *[]BoolCustom): left at its zero value; the generated code
			// never reads a custom field back and the oracles skip custom fields
			nv = zero(pt.Elem())
		}
		e.store(st, args[i].(*PtrV), nv)
	}
	res := fn.Signature.Results()
	if res.Len() == 0 {
		return nil
	}
	if res.Len() == 1 && types.IsInterface(res.At(0).Type()) {
		for i := len(args) - 1; i >= 0; i-- {
			if iv, ok := args[i].(*IfaceV); ok && types.Identical(params.At(i).Type(), res.At(0).Type()) {
				return iv
			}
		}
	}
	return zeroResults(fn)
}
