package main

// Bounded strings as bit-vectors (level K). A string of capacity c is one
// bit-vector of 8*(c+1) bits: the low byte is the length, byte i+1 is character
// i, and every byte at or beyond the length is zero (canonical padding), so Go's
// == is bit-vector equality after zero-extension to a common capacity. All
// library functions are mux / comparator networks over the positions: the
// solver sees pure QF_BV, which it decides where the SMT string theory gave up
// (DESIGN §4.1, measured in §4.9).

import (
	"fmt"
	"strings"
)

func sCap(t *Term) int { return t.W/8 - 1 }

func isBVStr(t *Term) bool { return t.K == KStr && t.W > 0 }

// strConstBits encodes a Go string as the bit-vector literal (hex, most significant byte first).
func strConstHex(s string) string {
	var sb strings.Builder
	sb.WriteString("#x")
	for i := len(s) - 1; i >= 0; i-- {
		fmt.Fprintf(&sb, "%02x", s[i])
	}
	fmt.Fprintf(&sb, "%02x", len(s))
	return sb.String()
}

// sPad zero-extends a string term to capacity c.
func sPad(t *Term, c int) *Term {
	if sCap(t) == c {
		return t
	}
	if sCap(t) > c {
		panic(fmt.Sprintf("sPad: shrinking %d -> %d", sCap(t), c))
	}
	if t.IsConst {
		return intern(&Term{K: KStr, W: 8 * (c + 1), IsConst: true, S: t.S, Max: int64(len(t.S))})
	}
	r := mk(KStr, 8*(c+1), fmt.Sprintf("(_ zero_extend %d)", 8*(c-sCap(t))), t)
	r.Max = t.Max
	return r
}

func sByte(t *Term, i int) *Term { // byte i of the encoding (0 = length)
	if t.IsConst {
		if i == 0 {
			return BVC(8, uint64(len(t.S)))
		}
		if i-1 < len(t.S) {
			return BVC(8, uint64(t.S[i-1]))
		}
		return BVC(8, 0)
	}
	if i > sCap(t) {
		return BVC(8, 0)
	}
	if t.Op == "strmk" {
		return t.Args[i]
	}
	return mk(KBV, 8, fmt.Sprintf("(_ extract %d %d)", 8*i+7, 8*i), t)
}

func sLen8(t *Term) *Term { return sByte(t, 0) }

func sLen64(t *Term) *Term {
	if t.IsConst {
		return BVC(64, uint64(len(t.S)))
	}
	r := BVConv(sLen8(t), 8, 64, false)
	r.Max = int64(sCap(t))
	if t.Max >= 0 && t.Max < r.Max {
		r.Max = t.Max
	}
	return r
}

func sChar(t *Term, i int) *Term { return sByte(t, i+1) }

// sMk assembles a string from a length byte and character bytes (already canonical).
func sMk(ln *Term, chars []*Term) *Term {
	allConst := ln.IsConst
	for _, c := range chars {
		if !c.IsConst {
			allConst = false
		}
	}
	if allConst {
		n := int(ln.BV)
		b := make([]byte, 0, n)
		for i := 0; i < n && i < len(chars); i++ {
			b = append(b, byte(chars[i].BV))
		}
		return sPad(StrC(string(b)), len(chars))
	}
	args := append([]*Term{ln}, chars...)
	t := mk(KStr, 8*(len(chars)+1), "strmk", args...)
	t.Max = int64(len(chars))
	if ln.Max >= 0 && ln.Max < t.Max {
		t.Max = ln.Max
	}
	return t
}

// canon masks characters at or beyond the length.
func sCanon(ln *Term, chars []*Term) *Term {
	out := make([]*Term, len(chars))
	for i, c := range chars {
		out[i] = Ite(BVBin("<", BVC(8, uint64(i)), ln, false), c, BVC(8, 0))
	}
	return sMk(ln, out)
}

// sAt is character at a symbolic 8-bit position (0 when out of range).
func sAt(t *Term, pos *Term) *Term {
	if pos.IsConst {
		return sChar(t, int(pos.BV))
	}
	r := BVC(8, 0)
	for i := sCap(t) - 1; i >= 0; i-- {
		r = Ite(Eq(pos, BVC(8, uint64(i))), sChar(t, i), r)
	}
	return r
}

// sSubstr is s[lo : lo+n] for 8-bit lo, n (caller guarantees lo+n <= len or accepts truncation).
func sSubstr(s, lo, n *Term) *Term {
	if s.IsConst && lo.IsConst && n.IsConst {
		l, k := int(lo.BV), int(n.BV)
		if l > len(s.S) {
			l = len(s.S)
		}
		if l+k > len(s.S) {
			k = len(s.S) - l
		}
		return StrC(s.S[l : l+k])
	}
	c := sCap(s)
	if n.IsConst && int(n.BV) < c {
		c = int(n.BV)
	}
	chars := make([]*Term, c)
	for j := 0; j < c; j++ {
		chars[j] = sAt(s, BVBin("+", lo, BVC(8, uint64(j)), false))
	}
	// never longer than what remains
	rem := Ite(BVBin("<", sLen8(s), lo, false), BVC(8, 0), BVBin("-", sLen8(s), lo, false))
	ln := Ite(BVBin("<", rem, n, false), rem, n)
	return sCanon(ln, chars)
}

func sConcat(a, b *Term) *Term {
	if a.IsConst && b.IsConst {
		return StrC(a.S + b.S)
	}
	if a.IsConst && a.S == "" {
		return b
	}
	if b.IsConst && b.S == "" {
		return a
	}
	ca, cb := sCap(a), sCap(b)
	if a.IsConst {
		ca = len(a.S)
	}
	if b.IsConst {
		cb = len(b.S)
	}
	c := ca + cb
	if c > 250 {
		panic(unsupported("string concatenation beyond 250 bytes"))
	}
	la, lb := sLen8(a), sLen8(b)
	chars := make([]*Term, c)
	for j := 0; j < c; j++ {
		// j < la ? a[j] : b[j-la]
		var fromB *Term
		if la.IsConst {
			k := j - int(la.BV)
			if k >= 0 {
				fromB = sChar(b, k)
			} else {
				fromB = BVC(8, 0)
			}
		} else {
			fromB = sAt(b, BVBin("-", BVC(8, uint64(j)), la, false))
		}
		if j < ca {
			chars[j] = Ite(BVBin("<", BVC(8, uint64(j)), la, false), sChar(a, j), fromB)
		} else {
			chars[j] = fromB
		}
	}
	return sCanon(BVBin("+", la, lb, false), chars)
}

// sMatchAt: sub occurs in s at concrete position i.
func sMatchAt(s, sub *Term, i int) *Term {
	cb := sCap(sub)
	if sub.IsConst {
		cb = len(sub.S)
	}
	ls, lb := sLen8(s), sLen8(sub)
	conds := []*Term{BVBin("<=", BVBin("+", BVC(8, uint64(i)), lb, false), ls, false)}
	// guard against 8-bit overflow of i+lb: capacities are < 250
	for k := 0; k < cb; k++ {
		conds = append(conds, Or(Not(BVBin("<", BVC(8, uint64(k)), lb, false)), Eq(sChar(s, i+k), sChar(sub, k))))
	}
	return And(conds...)
}

// sIndex is strings.Index as a signed 64-bit value.
func sIndex(s, sub *Term) *Term {
	if s.IsConst && sub.IsConst {
		return BVC(64, uint64(int64(strings.Index(s.S, sub.S))))
	}
	r := BVC(64, ^uint64(0))
	for i := sCap(s); i >= 0; i-- {
		r = Ite(sMatchAt(s, sub, i), BVC(64, uint64(i)), r)
	}
	return r
}

func sLastIndex(s, sub *Term) *Term {
	if s.IsConst && sub.IsConst {
		return BVC(64, uint64(int64(strings.LastIndex(s.S, sub.S))))
	}
	r := BVC(64, ^uint64(0))
	for i := 0; i <= sCap(s); i++ {
		r = Ite(sMatchAt(s, sub, i), BVC(64, uint64(i)), r)
	}
	return r
}

func sContains(s, sub *Term) *Term {
	if s.IsConst && sub.IsConst {
		return BoolC(strings.Contains(s.S, sub.S))
	}
	var ds []*Term
	for i := 0; i <= sCap(s); i++ {
		ds = append(ds, sMatchAt(s, sub, i))
	}
	return Or(ds...)
}

func sHasPrefix(s, pre *Term) *Term {
	if s.IsConst && pre.IsConst {
		return BoolC(strings.HasPrefix(s.S, pre.S))
	}
	return sMatchAt(s, pre, 0)
}

func sHasSuffix(s, suf *Term) *Term {
	if s.IsConst && suf.IsConst {
		return BoolC(strings.HasSuffix(s.S, suf.S))
	}
	var ds []*Term
	ls, lb := sLen8(s), sLen8(suf)
	for i := 0; i <= sCap(s); i++ {
		ds = append(ds, And(Eq(BVBin("+", BVC(8, uint64(i)), lb, false), ls), sMatchAt(s, suf, i)))
	}
	return Or(ds...)
}

func byteInSet(c *Term, set string) *Term {
	var ds []*Term
	for _, x := range []byte(set) {
		ds = append(ds, Eq(c, BVC(8, uint64(x))))
	}
	return Or(ds...)
}

// sTrim removes leading / trailing characters of a constant cutset.
func sTrim(s *Term, cutset string, left, right bool) *Term {
	if s.IsConst {
		switch {
		case left && right:
			return StrC(strings.Trim(s.S, cutset))
		case left:
			return StrC(strings.TrimLeft(s.S, cutset))
		default:
			return StrC(strings.TrimRight(s.S, cutset))
		}
	}
	c := sCap(s)
	ls := sLen8(s)
	start := BVC(8, 0)
	if left {
		// start = number of leading cutset characters
		all := TrueT
		for i := 0; i < c; i++ {
			all = And(all, BVBin("<", BVC(8, uint64(i)), ls, false), byteInSet(sChar(s, i), cutset))
			start = Ite(all, BVC(8, uint64(i+1)), start)
		}
	}
	end := ls
	if right {
		// end = len - number of trailing cutset characters (never below start)
		trail := BVC(8, 0)
		all := TrueT
		for k := 0; k < c; k++ {
			// position len-1-k
			pos := BVBin("-", BVBin("-", ls, BVC(8, 1), false), BVC(8, uint64(k)), false)
			inb := BVBin("<", BVC(8, uint64(k)), ls, false)
			all = And(all, inb, byteInSet(sAt(s, pos), cutset))
			trail = Ite(all, BVC(8, uint64(k+1)), trail)
		}
		end = BVBin("-", ls, trail, false)
	}
	n := Ite(BVBin("<", end, start, false), BVC(8, 0), BVBin("-", end, start, false))
	return sSubstr(s, start, n)
}

// sIndexFrom: first position >= from (8-bit) where the single character sep occurs, else len.
func sIndexByteFrom(s *Term, sep byte, from *Term) (*Term, *Term) {
	ls := sLen8(s)
	idx := ls
	found := FalseT
	for i := sCap(s) - 1; i >= 0; i-- {
		hit := And(BVBin("<=", from, BVC(8, uint64(i)), false), BVBin("<", BVC(8, uint64(i)), ls, false), Eq(sChar(s, i), BVC(8, uint64(sep))))
		idx = Ite(hit, BVC(8, uint64(i)), idx)
		found = Or(found, hit)
	}
	return idx, found
}

// sSplit: strings.Split for a single-character separator, at most n parts; returns parts, count (BV64)
// and the condition "there are more than n parts" (the stated bound).
func sSplit(s *Term, sep byte, n int) ([]*Term, *Term, *Term) {
	parts := make([]*Term, n)
	start := BVC(8, 0)
	count := BVC(64, 0)
	done := FalseT
	for k := 0; k < n; k++ {
		idx, found := sIndexByteFrom(s, sep, start)
		part := sSubstr(s, start, BVBin("-", idx, start, false))
		parts[k] = Ite(done, sPad(StrC(""), sCap(part)), part)
		count = Ite(done, count, BVC(64, uint64(k+1)))
		last := Not(found)
		start = BVBin("+", idx, BVC(8, 1), false)
		if k == n-1 {
			return parts, count, And(Not(done), found)
		}
		done = Or(done, last)
	}
	return parts, count, FalseT
}

func sToLower(s *Term) *Term {
	if s.IsConst {
		return StrC(strings.ToLower(s.S))
	}
	c := sCap(s)
	chars := make([]*Term, c)
	for i := 0; i < c; i++ {
		ch := sChar(s, i)
		up := And(BVBin("<=", BVC(8, 'A'), ch, false), BVBin("<=", ch, BVC(8, 'Z'), false))
		chars[i] = Ite(up, BVBin("+", ch, BVC(8, 32), false), ch)
	}
	return sMk(sLen8(s), chars)
}

// sTrunc reduces the capacity of a string whose length is known not to exceed c.
func sTrunc(t *Term, c int) *Term {
	if sCap(t) <= c {
		return t
	}
	if t.IsConst {
		return t
	}
	chars := make([]*Term, c)
	for i := range chars {
		chars[i] = sChar(t, i)
	}
	return sMk(sLen8(t), chars)
}

// sRemoveByte deletes every occurrence of one character (compaction network).
func sRemoveByte(s *Term, c byte) *Term {
	n := sCap(s)
	keep := make([]*Term, n)
	rank := make([]*Term, n) // number of kept characters before position i
	cnt := BVC(8, 0)
	for i := 0; i < n; i++ {
		keep[i] = And(BVBin("<", BVC(8, uint64(i)), sLen8(s), false), Not(Eq(sChar(s, i), BVC(8, uint64(c)))))
		rank[i] = cnt
		cnt = BVBin("+", cnt, Ite(keep[i], BVC(8, 1), BVC(8, 0)), false)
	}
	chars := make([]*Term, n)
	for j := 0; j < n; j++ {
		ch := BVC(8, 0)
		for i := n - 1; i >= j; i-- {
			ch = Ite(And(keep[i], Eq(rank[i], BVC(8, uint64(j)))), sChar(s, i), ch)
		}
		chars[j] = ch
	}
	return sMk(cnt, chars)
}

// sReplaceAll: iterative first-occurrence replacement on the remaining suffix (Go's semantics).
func sReplaceAll(s *Term, old, nw string) *Term {
	if s.IsConst {
		return StrC(strings.ReplaceAll(s.S, old, nw))
	}
	if len(old) == 1 && nw == "" {
		return sRemoveByte(s, old[0])
	}
	if len(old) == 1 && len(nw) == 1 {
		// one character for another: position-wise
		c := sCap(s)
		chars := make([]*Term, c)
		for i := 0; i < c; i++ {
			ch := sChar(s, i)
			chars[i] = Ite(Eq(ch, BVC(8, uint64(old[0]))), BVC(8, uint64(nw[0])), ch)
		}
		return sMk(sLen8(s), chars)
	}
	bound := sCap(s)
	if len(nw) > len(old) {
		bound = sCap(s) * len(nw) / len(old)
	}
	n := sCap(s)/len(old) + 1
	out := StrC("")
	rest := s
	done := FalseT
	oldT, nwT := StrC(old), StrC(nw)
	for k := 0; k < n; k++ {
		idx := sIndex(rest, oldT)
		last := BVBin("<", idx, BVC(64, 0), true)
		i8 := BVConv(idx, 64, 8, false)
		piece := Ite(last, sPad(rest, sCap(rest)+len(nw)), sPad(sConcat(sSubstr(rest, BVC(8, 0), i8), nwT), sCap(rest)+len(nw)))
		nout := sTrunc(sConcat(out, piece), bound)
		out = Ite(done, out, nout)
		from := BVBin("+", i8, BVC(8, uint64(len(old))), false)
		rest = sSubstr(rest, from, BVBin("-", sLen8(rest), from, false))
		done = Or(done, last)
	}
	return out
}

var _ = sTrunc

// sLess is Go's string < (lexicographic on bytes).
func sLess(a, b *Term) *Term {
	if a.IsConst && b.IsConst {
		return BoolC(a.S < b.S)
	}
	c := sCap(a)
	if sCap(b) > c {
		c = sCap(b)
	}
	// because of canonical zero padding, comparing padded bytes then lengths is exact for strings
	// without NUL; with NUL bytes the length decides among equal prefixes
	res := BVBin("<", sLen8(a), sLen8(b), false)
	for i := c - 1; i >= 0; i-- {
		ca, cb := sChar(a, i), sChar(b, i)
		ina := BVBin("<", BVC(8, uint64(i)), sLen8(a), false)
		inb := BVBin("<", BVC(8, uint64(i)), sLen8(b), false)
		both := And(ina, inb)
		res = Ite(And(both, Not(Eq(ca, cb))), BVBin("<", ca, cb, false), Ite(both, res, BVBin("<", sLen8(a), sLen8(b), false)))
	}
	return res
}

// sWellFormed: len <= cap and canonical padding (the invariant of a fresh string variable).
func sWellFormed(v *Term, max int) *Term {
	cs := []*Term{BVBin("<=", sLen8(v), BVC(8, uint64(max)), false)}
	for i := 0; i < sCap(v); i++ {
		cs = append(cs, Or(BVBin("<", BVC(8, uint64(i)), sLen8(v), false), Eq(sChar(v, i), BVC(8, 0))))
	}
	return And(cs...)
}

// sEach: predicate on every character inside the length.
func sEach(v *Term, pred func(c *Term) *Term) *Term {
	if v.IsConst {
		ok := TrueT
		for i := 0; i < len(v.S); i++ {
			ok = And(ok, pred(BVC(8, uint64(v.S[i]))))
		}
		return ok
	}
	var cs []*Term
	for i := 0; i < sCap(v); i++ {
		cs = append(cs, Or(Not(BVBin("<", BVC(8, uint64(i)), sLen8(v), false)), pred(sChar(v, i))))
	}
	return And(cs...)
}

func byteRange(c *Term, lo, hi byte) *Term {
	return And(BVBin("<=", BVC(8, uint64(lo)), c, false), BVBin("<=", c, BVC(8, uint64(hi)), false))
}

// decodeBVStr turns a model value of a string variable into a Go string.
func decodeBVStr(v string) string {
	var hex string
	switch {
	case strings.HasPrefix(v, "#x"):
		hex = v[2:]
	case strings.HasPrefix(v, "#b"):
		bits := v[2:]
		for len(bits)%8 != 0 {
			bits = "0" + bits
		}
		var sb strings.Builder
		for i := 0; i < len(bits); i += 8 {
			var b byte
			for _, ch := range bits[i : i+8] {
				b = b<<1 | byte(ch-'0')
			}
			fmt.Fprintf(&sb, "%02x", b)
		}
		hex = sb.String()
	default:
		return ""
	}
	if len(hex)%2 == 1 {
		hex = "0" + hex
	}
	n := len(hex) / 2
	bytes := make([]byte, n)
	for i := 0; i < n; i++ {
		var b byte
		fmt.Sscanf(hex[2*i:2*i+2], "%02x", &b)
		bytes[n-1-i] = b // bytes[0] = length
	}
	ln := int(bytes[0])
	if ln > n-1 {
		ln = n - 1
	}
	return string(bytes[1 : 1+ln])
}
