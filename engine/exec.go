package main

// Symbolic execution of go/ssa functions: branches are executed on both sides
// up to the immediate post-dominator and merged (no path forking).

import (
	"fmt"
	"go/constant"
	"go/token"
	"go/types"
	"os"
	"regexp"
	"strconv"
	"strings"

	"golang.org/x/tools/go/ssa"
)

type Frame struct {
	fn   *ssa.Function
	regs map[ssa.Value]Value
	rets []retAlt
	ipd  map[*ssa.BasicBlock]*ssa.BasicBlock
}
type retAlt struct {
	st   *State
	vals Value
}

type Assertion struct {
	Label   string
	Kind    string // "assert" | "reach" | "except"
	PC      *Term  // reach condition of the assertion point
	Cond    *Term
	Assumes *Term
	Excuse  string
	Excused *Term
}

type Nondet struct {
	Name string
	Tag  string // bool i32 i64 u32 u64 f32 f64 str len
	T    *Term
	Max  int64
}

type Engine struct {
	prog     *ssa.Program
	targets  map[*ssa.Package]bool
	inited   map[*ssa.Package]bool
	globals  map[*ssa.Global]*Obj
	gheap    map[*Obj]Value // initial contents of globals after init
	asserts  []Assertion
	nondets  []Nondet
	nvar     int
	depth    int
	ninstr   int
	funcs    map[string]int
	fnInstrs map[string]int
	stubs    map[string]int
	stack    map[ssa.Instruction]int
	unwind   int
	tolerant bool
	feas     *Solver
	nfeas    int
	npruned  int
	rangeMap []string // range-over-map sites met (C14 evidence)
	notes    []string
	prefix   string
	uf       map[string]*Term
	events   []Event
	panicC   *Term // accumulated condition under which some executed point panics
	locObj   *Obj
	strMax   int
	solverName string
	splitMax int
	bounds   map[string]bool
	optRecs  map[*Obj]*StructV
	cfgFile  *cfgFileEnv
	prune    bool
	mapOrder bool // range over a map visits the entries in an arbitrary (symbolic) order
	nsched   int
	summarize *regexp.Regexp
	concrete []NondetVal
	cpos     int
}

// Event is a recorded stub side effect (log line, Fail, hook call).
type Event struct {
	Name string
	G    *Term
	Args []Value
}

func (e *Engine) fresh(prefix string, k Kind, w int) *Term {
	e.nvar++
	return Var(fmt.Sprintf("%s%s_%d", e.prefix, prefix, e.nvar), k, w)
}

func (e *Engine) nondet(tag string, k Kind, w int) *Term {
	if e.concrete != nil {
		// concrete mode (translator validation / debugging): the draw is the vector's value
		var nv NondetVal
		if e.cpos < len(e.concrete) {
			nv = e.concrete[e.cpos]
		}
		e.cpos++
		if nv.V == "?" {
			t := e.fresh("nd_"+tag, k, w)
			e.nondets = append(e.nondets, Nondet{Name: t.Name, Tag: tag, T: t, Max: -1})
			return t
		}
		e.nondets = append(e.nondets, Nondet{Name: fmt.Sprintf("c%d", e.cpos), Tag: tag, Max: -1})
		switch k {
		case KBool:
			return BoolC(nv.V == "true")
		case KStr:
			return StrC(nv.V)
		default:
			n, _ := strconv.ParseUint(nv.V, 10, 64)
			return BVC(w, n)
		}
	}
	t := e.fresh("nd_"+tag, k, w)
	e.nondets = append(e.nondets, Nondet{Name: t.Name, Tag: tag, T: t, Max: -1})
	return t
}

// ---------- post-dominators ----------

func postdoms(fn *ssa.Function) map[*ssa.BasicBlock]*ssa.BasicBlock {
	n := len(fn.Blocks)
	exit := n
	succ := func(i int) []int {
		if i == exit {
			return nil
		}
		b := fn.Blocks[i]
		if len(b.Succs) == 0 {
			return []int{exit}
		}
		var r []int
		for _, s := range b.Succs {
			r = append(r, s.Index)
		}
		return r
	}
	words := (n + 1 + 63) / 64
	pd := make([][]uint64, n+1)
	for i := 0; i <= n; i++ {
		pd[i] = make([]uint64, words)
		if i != exit {
			for j := range pd[i] {
				pd[i][j] = ^uint64(0)
			}
		}
	}
	pd[exit][exit/64] |= 1 << uint(exit%64)
	changed := true
	nw := make([]uint64, words)
	for changed {
		changed = false
		for i := n - 1; i >= 0; i-- {
			first := true
			for _, s := range succ(i) {
				if first {
					copy(nw, pd[s])
					first = false
				} else {
					for j := range nw {
						nw[j] &= pd[s][j]
					}
				}
			}
			nw[i/64] |= 1 << uint(i%64)
			for j := range nw {
				if nw[j] != pd[i][j] {
					changed = true
					pd[i][j] = nw[j]
				}
			}
		}
	}
	cnt := func(i int) int {
		c := 0
		for _, w := range pd[i] {
			for ; w != 0; w &= w - 1 {
				c++
			}
		}
		return c
	}
	cnts := make([]int, n+1)
	for i := range cnts {
		cnts[i] = cnt(i)
	}
	res := map[*ssa.BasicBlock]*ssa.BasicBlock{}
	for i := 0; i < n; i++ {
		best, bestc := -1, -1
		for j := 0; j <= n; j++ {
			if j != i && pd[i][j/64]&(1<<uint(j%64)) != 0 {
				if cnts[j] > bestc {
					best, bestc = j, cnts[j]
				}
			}
		}
		if best >= 0 && best != exit {
			res[fn.Blocks[i]] = fn.Blocks[best]
		}
	}
	return res
}

var pdCache = map[*ssa.Function]map[*ssa.BasicBlock]*ssa.BasicBlock{}

// ---------- calls ----------

func (e *Engine) call(fn *ssa.Function, args []Value, binds []Value, st *State) (Value, *State) {
	name := fn.String()
	if v, st2, ok := e.intrinsic(fn, name, args, st); ok {
		e.stubs[name]++
		return v, st2
	}
	if len(fn.Blocks) == 0 {
		panic(unsupported("external function without body: %s", name))
	}
	e.funcs[name]++
	if _, ok := e.fnInstrs[name]; !ok {
		n := 0
		for _, b := range fn.Blocks {
			n += len(b.Instrs)
		}
		e.fnInstrs[name] = n
	}
	e.depth++
	if e.depth > 80 {
		panic(unsupported("call depth exceeded at %s", name))
	}
	defer func() { e.depth-- }()
	ipd, ok := pdCache[fn]
	if !ok {
		ipd = postdoms(fn)
		pdCache[fn] = ipd
	}
	fr := &Frame{fn: fn, regs: make(map[ssa.Value]Value, 64), ipd: ipd}
	for i, p := range fn.Params {
		fr.regs[p] = args[i]
	}
	for i, fv := range fn.FreeVars {
		fr.regs[fv] = binds[i]
	}
	end := e.exec(fr, fn.Blocks[0], st, nil)
	if end != nil {
		panic(unsupported("fell off function %s", name))
	}
	if len(fr.rets) == 0 {
		// every path panicked
		dead := st.clone()
		dead.pc = FalseT
		return zeroResults(fn), dead
	}
	acc := fr.rets[len(fr.rets)-1]
	rs, rv := acc.st, acc.vals
	for i := len(fr.rets) - 2; i >= 0; i-- {
		r := fr.rets[i]
		ms := mergeState(r.st.pc, r.st, rs, Or(r.st.pc, rs.pc))
		rv = mergeV(ms, r.st.pc, r.vals, rv)
		rs = ms
	}
	// after the return the structural path condition is the caller's again
	rs.pc = st.pc
	return rv, rs
}

func zeroResults(fn *ssa.Function) Value {
	res := fn.Signature.Results()
	switch res.Len() {
	case 0:
		return nil
	case 1:
		return zero(res.At(0).Type())
	}
	return zero(res)
}

// ---------- block execution ----------

// exec runs from block b until stop (exclusive) and returns the state at stop, or nil if no path reaches it.
func (e *Engine) exec(fr *Frame, b *ssa.BasicBlock, st *State, stop *ssa.BasicBlock) *State {
	for {
		if b == stop {
			return st
		}
		var term ssa.Instruction
		for _, ins := range b.Instrs {
			switch ins.(type) {
			case *ssa.Phi:
				continue
			case *ssa.If, *ssa.Jump, *ssa.Return, *ssa.Panic:
				term = ins
			default:
				e.ninstr++
				st = e.stepTol(fr, ins, st)
				if st.pc == FalseT {
					// everything after a certain panic is dead
					return nil
				}
			}
		}
		switch t := term.(type) {
		case *ssa.Jump:
			e.edge(fr, b, b.Succs[0])
			b = b.Succs[0]
		case *ssa.Return:
			var v Value
			switch len(t.Results) {
			case 0:
			case 1:
				v = e.val(fr, t.Results[0])
			default:
				tv := &TupleV{}
				for _, r := range t.Results {
					tv.F = append(tv.F, e.val(fr, r))
				}
				v = tv
			}
			fr.rets = append(fr.rets, retAlt{st: st, vals: v})
			return nil
		case *ssa.Panic:
			e.addPanic(st, TrueT)
			return nil
		case *ssa.If:
			c := e.val(fr, t.Cond).(*Term)
			if c.IsConst {
				nb := b.Succs[1]
				if c.B {
					nb = b.Succs[0]
				}
				e.edge(fr, b, nb)
				b = nb
				continue
			}
			if os.Getenv("GOSYM_TRACE") != "" {
				fmt.Fprintln(os.Stderr, "fork at", e.where(t.Cond), "in", fr.fn.Name())
			}
			join := fr.ipd[b]
			pcA := And(st.pc, c)
			pcB := And(st.pc, Not(c))
			e.stack[t]++
			if e.stack[t] > e.unwind {
				// unwinding assertion: beyond the bound a side is only followed when the
				// solver cannot refute it, and never past the hard cap
				if pcA != FalseT && e.infeasible(st, pcA) {
					pcA = FalseT
				}
				if pcB != FalseT && e.infeasible(st, pcB) {
					pcB = FalseT
				}
				if pcA != FalseT && pcB != FalseT && e.stack[t] > e.unwind+12 {
					panic(unsupported("unwinding bound %d too small at %s", e.unwind, e.where(t.Cond)))
				}
			}
			// infeasible error paths are pruned before they are executed (DESIGN §4.2)
			if e.prune && pcA != FalseT && e.isErrorBlock(b.Succs[0]) && e.infeasible(st, pcA) {
				pcA = FalseT
				e.npruned++
			}
			if e.prune && pcB != FalseT && e.isErrorBlock(b.Succs[1]) && e.infeasible(st, pcB) {
				pcB = FalseT
				e.npruned++
			}
			saved := fr.regs
			var endA, endB *State
			var regsA, regsB map[ssa.Value]Value
			if pcA != FalseT {
				stA := st.clone()
				stA.pc = pcA
				fr.regs = cloneRegs(saved)
				e.edge(fr, b, b.Succs[0])
				endA = e.exec(fr, b.Succs[0], stA, join)
				regsA = fr.regs
			}
			if pcB != FalseT {
				stB := st.clone()
				stB.pc = pcB
				fr.regs = cloneRegs(saved)
				e.edge(fr, b, b.Succs[1])
				endB = e.exec(fr, b.Succs[1], stB, join)
				regsB = fr.regs
			}
			fr.regs = saved
			e.stack[t]--
			switch {
			case endA == nil && endB == nil:
				return nil
			case endA == nil:
				fr.regs = regsB
				st = endB
			case endB == nil:
				fr.regs = regsA
				st = endA
			default:
				npc := st.pc
				st = mergeState(c, endA, endB, npc)
				fr.regs = mergeRegs(st, c, regsA, regsB)
			}
			if join == nil {
				panic(unsupported("no join block for a branch in %s", fr.fn.String()))
			}
			b = join
		default:
			panic(unsupported("block without terminator in %s", fr.fn))
		}
	}
}

var errBlockCache = map[*ssa.BasicBlock]bool{}

// isErrorBlock: the block appends to a diag.Diagnostics (the generated code's error paths).
func (e *Engine) isErrorBlock(b *ssa.BasicBlock) bool {
	if v, ok := errBlockCache[b]; ok {
		return v
	}
	r := false
	for _, ins := range b.Instrs {
		if c, ok := ins.(*ssa.Call); ok {
			if f := c.Call.StaticCallee(); f != nil {
				n := f.String()
				if strings.HasSuffix(n, "diag.Diagnostics).Append") || strings.HasSuffix(n, "diag.Diagnostics).AddError") {
					r = true
					break
				}
			}
		}
	}
	errBlockCache[b] = r
	return r
}

func cloneRegs(r map[ssa.Value]Value) map[ssa.Value]Value {
	n := make(map[ssa.Value]Value, len(r)+16)
	for k, v := range r {
		n[k] = v
	}
	return n
}

func mergeRegs(st *State, c *Term, a, b map[ssa.Value]Value) map[ssa.Value]Value {
	r := make(map[ssa.Value]Value, len(a))
	for k, va := range a {
		if vb, ok := b[k]; ok {
			if va == vb {
				r[k] = va
			} else {
				r[k] = mergeV(st, c, va, vb)
			}
		} else {
			r[k] = va
		}
	}
	for k, vb := range b {
		if _, ok := a[k]; !ok {
			r[k] = vb
		}
	}
	return r
}

func (e *Engine) edge(fr *Frame, from, to *ssa.BasicBlock) {
	idx := -1
	for i, p := range to.Preds {
		if p == from {
			idx = i
			break
		}
	}
	var phis []*ssa.Phi
	var vals []Value
	for _, ins := range to.Instrs {
		p, ok := ins.(*ssa.Phi)
		if !ok {
			break
		}
		phis = append(phis, p)
		vals = append(vals, e.val(fr, p.Edges[idx]))
	}
	for i, p := range phis {
		fr.regs[p] = vals[i]
	}
}

// ---------- values of operands ----------

func (e *Engine) val(fr *Frame, v ssa.Value) Value {
	switch x := v.(type) {
	case *ssa.Const:
		return e.constVal(x)
	case *ssa.Function:
		return &FuncV{Fn: x}
	case *ssa.Global:
		return &PtrV{Alts: []PAlt{{G: TrueT, O: e.globalObj(x)}}}
	case *ssa.Builtin:
		return &OpaqueV{Name: "builtin:" + x.Name()}
	}
	r, ok := fr.regs[v]
	if !ok {
		panic(unsupported("undefined register %s = %s in %s", v.Name(), v, fr.fn))
	}
	if p, ok := r.(*PoisonV); ok && !e.tolerant {
		panic(unsupported("use of a value the engine could not compute: %s", p.Why))
	}
	return r
}

func (e *Engine) constVal(c *ssa.Const) Value {
	t := c.Type()
	if c.Value == nil {
		return zero(t)
	}
	switch u := t.Underlying().(type) {
	case *types.Basic:
		switch {
		case u.Info()&types.IsBoolean != 0:
			return BoolC(constant.BoolVal(c.Value))
		case u.Info()&types.IsString != 0:
			return StrC(constant.StringVal(c.Value))
		case u.Info()&types.IsFloat != 0:
			f, _ := constant.Float64Val(c.Value)
			if u.Kind() == types.Float32 {
				return FPC(32, f)
			}
			return FPC(64, f)
		case u.Info()&types.IsInteger != 0:
			w, _ := bvWidth(u)
			if i, ok := constant.Int64Val(c.Value); ok {
				return BVC(w, uint64(i))
			}
			ui, _ := constant.Uint64Val(c.Value)
			return BVC(w, ui)
		}
	}
	panic(unsupported("constant of type %s", t.String()))
}

func (e *Engine) globalObj(g *ssa.Global) *Obj {
	if o, ok := e.globals[g]; ok {
		return o
	}
	et := g.Type().Underlying().(*types.Pointer).Elem()
	o := newObj(et)
	o.tag = "global " + g.String()
	e.globals[g] = o
	if e.targets[g.Pkg] {
		e.gheap[o] = zero(et)
	} else {
		e.gheap[o] = &PoisonV{Why: "global " + g.String() + " of a package whose init is not executed"}
	}
	return o
}

func (e *Engine) cell(st *State, o *Obj) (Value, bool) {
	if v, ok := st.heap[o]; ok {
		return v, true
	}
	if v, ok := e.gheap[o]; ok {
		return v, true
	}
	return nil, false
}

// ---------- memory ----------

func (e *Engine) load(st *State, p *PtrV, t types.Type) Value {
	var res Value
	first := true
	for i := len(p.Alts) - 1; i >= 0; i-- {
		a := p.Alts[i]
		if a.O == nil {
			e.addPanic(st, a.G)
			continue
		}
		cell, ok := e.cell(st, a.O)
		if !ok {
			panic(unsupported("load from unknown object"))
		}
		if pz, ok := cell.(*PoisonV); ok {
			if e.tolerant {
				return pz
			}
			panic(unsupported("load: %s", pz.Why))
		}
		v := getPath(cell, a.Path)
		if first {
			res = v
			first = false
		} else {
			res = mergeV(st, a.G, v, res)
		}
	}
	if first {
		// definitely nil on this path
		st.pc = FalseT
		return zero(t)
	}
	return res
}

func (e *Engine) store(st *State, p *PtrV, v Value) {
	nonnil := 0
	for _, a := range p.Alts {
		if a.O == nil {
			e.addPanic(st, a.G)
			continue
		}
		nonnil++
		cell, ok := e.cell(st, a.O)
		if !ok {
			panic(unsupported("store to unknown object"))
		}
		if _, isP := cell.(*PoisonV); isP {
			if len(a.Path) == 0 {
				st.heap[a.O] = v
				continue
			}
			panic(unsupported("store into poisoned object"))
		}
		nv := v
		if a.G != TrueT {
			nv = mergeV(st, a.G, v, getPath(cell, a.Path))
		}
		st.heap[a.O] = setPath(cell, a.Path, nv)
	}
	if nonnil == 0 {
		st.pc = FalseT
	}
}

func extendPtr(p *PtrV, idx int) *PtrV {
	r := &PtrV{}
	for _, a := range p.Alts {
		if a.O == nil {
			continue
		}
		np := append(append([]int(nil), a.Path...), idx)
		r.Alts = append(r.Alts, PAlt{G: a.G, O: a.O, Path: np})
	}
	return r
}

// derefBase records the nil alternatives of p as panic conditions; ok=false when p is certainly nil.
func (e *Engine) derefBase(st *State, p *PtrV) bool {
	n := 0
	for _, a := range p.Alts {
		if a.O == nil {
			e.addPanic(st, a.G)
		} else {
			n++
		}
	}
	if n == 0 {
		st.pc = FalseT
		return false
	}
	return true
}

// ---------- instructions ----------

func (e *Engine) stepTol(fr *Frame, ins ssa.Instruction, st *State) (out *State) {
	if !e.tolerant {
		return e.step(fr, ins, st)
	}
	defer func() {
		if r := recover(); r != nil {
			if v, ok := ins.(ssa.Value); ok {
				fr.regs[v] = &PoisonV{Why: fmt.Sprintf("%v (%s)", r, e.where(ins))}
			}
			out = st
		}
	}()
	return e.step(fr, ins, st)
}

func (e *Engine) step(fr *Frame, ins ssa.Instruction, st *State) *State {
	switch x := ins.(type) {
	case *ssa.DebugRef:
	case *ssa.Alloc:
		et := x.Type().Underlying().(*types.Pointer).Elem()
		o := newObj(et)
		st.heap[o] = zero(et)
		fr.regs[x] = &PtrV{Alts: []PAlt{{G: TrueT, O: o}}}
	case *ssa.FieldAddr:
		p := e.val(fr, x.X).(*PtrV)
		if !e.derefBase(st, p) {
			fr.regs[x] = &PtrV{Alts: []PAlt{{G: TrueT}}}
			break
		}
		fr.regs[x] = extendPtr(p, x.Field)
	case *ssa.Field:
		fr.regs[x] = e.val(fr, x.X).(*StructV).F[x.Field]
	case *ssa.IndexAddr:
		fr.regs[x] = e.indexAddr(fr, x, st)
	case *ssa.Index:
		idx := e.val(fr, x.Index).(*Term)
		switch base := e.val(fr, x.X).(type) {
		case *ArrayV:
			if !idx.IsConst {
				panic(unsupported("symbolic index into array value"))
			}
			fr.regs[x] = base.F[int(idx.BV)]
		case *Term: // string index
			fr.regs[x] = e.strIndex(st, base, idx)
		default:
			panic(unsupported("Index on %T", base))
		}
	case *ssa.UnOp:
		fr.regs[x] = e.unop(fr, x, st)
	case *ssa.Store:
		e.store(st, e.val(fr, x.Addr).(*PtrV), e.val(fr, x.Val))
	case *ssa.BinOp:
		fr.regs[x] = e.binop(st, x.Op, e.val(fr, x.X), e.val(fr, x.Y), x.X.Type())
	case *ssa.Extract:
		fr.regs[x] = e.val(fr, x.Tuple).(*TupleV).F[x.Index]
	case *ssa.MakeInterface:
		fr.regs[x] = &IfaceV{Alts: []IAlt{{G: TrueT, T: x.X.Type(), V: e.val(fr, x.X)}}}
	case *ssa.ChangeType:
		fr.regs[x] = retag(e.val(fr, x.X), x.Type())
	case *ssa.ChangeInterface:
		fr.regs[x] = e.val(fr, x.X)
	case *ssa.Convert:
		fr.regs[x] = e.convert(e.val(fr, x.X), x.X.Type(), x.Type())
	case *ssa.TypeAssert:
		fr.regs[x] = e.typeAssert(x, e.val(fr, x.X).(*IfaceV), st)
	case *ssa.MakeMap:
		o := newObj(x.Type())
		st.heap[o] = &MapC{}
		fr.regs[x] = &MapV{Alts: []MAlt{{G: TrueT, O: o}}}
	case *ssa.MakeSlice:
		fr.regs[x] = e.makeSlice(st, x.Type(), e.val(fr, x.Len).(*Term))
	case *ssa.MakeClosure:
		fv := &FuncV{Fn: x.Fn.(*ssa.Function)}
		for _, b := range x.Bindings {
			fv.Binds = append(fv.Binds, e.val(fr, b))
		}
		fr.regs[x] = fv
	case *ssa.Slice:
		fr.regs[x] = e.sliceOp(fr, x, st)
	case *ssa.Lookup:
		fr.regs[x] = e.lookup(x, e.val(fr, x.X), e.val(fr, x.Index), st)
	case *ssa.MapUpdate:
		e.mapUpdate(e.val(fr, x.Map).(*MapV), e.val(fr, x.Key), e.val(fr, x.Value), st)
	case *ssa.Call:
		st = e.doCall(fr, x, st)
	case *ssa.Range:
		switch m := e.val(fr, x.X).(type) {
		case *MapV:
			e.rangeMap = append(e.rangeMap, e.where(x)+" in "+fr.fn.String())
			it := &IterV{}
			for _, ma := range m.Alts {
				if ma.O == nil {
					continue
				}
				for _, en := range st.heap[ma.O].(*MapC).Ents {
					if p := And(ma.G, en.P); p != FalseT {
						it.Ents = append(it.Ents, MEnt{P: p, K: en.K, V: en.V})
					}
				}
			}
			fr.regs[x] = it
		default:
			panic(unsupported("range over %T (string iteration is not modelled)", m))
		}
	case *ssa.Next:
		e.next(fr, x, st)
	case *ssa.RunDefers:
		// no Defer instruction is supported, so there is nothing to run
	default:
		panic(unsupported("instruction %T: %s (%s)", ins, ins, e.where(ins)))
	}
	return st
}

func (e *Engine) next(fr *Frame, x *ssa.Next, st *State) {
	it := e.val(fr, x.Iter).(*IterV)
	if it.Step < 0 {
		panic(unsupported("use of a merged map iterator"))
	}
	tt := x.Type().(*types.Tuple)
	// the s-th call returns the s-th *present* entry: entry j with P_j and |{i<j : P_i}| == s
	s := it.Step
	n := len(it.Ents)
	var k, v Value
	if tt.At(1).Type() != types.Typ[types.Invalid] {
		k = zero(tt.At(1).Type())
	}
	if tt.At(2).Type() != types.Typ[types.Invalid] {
		v = zero(tt.At(2).Type())
	}
	ok := FalseT
	var sched []*Term
	if s < n {
		cnt := make([][]*Term, n+1)
		cnt[0] = make([]*Term, s+2)
		for c := range cnt[0] {
			cnt[0][c] = BoolC(c == 0)
		}
		for j := 0; j < n; j++ {
			cnt[j+1] = make([]*Term, s+2)
			for c := 0; c <= s+1; c++ {
				stay := And(Not(it.Ents[j].P), cnt[j][c])
				if c > 0 {
					cnt[j+1][c] = Or(stay, And(it.Ents[j].P, cnt[j][c-1]))
				} else {
					cnt[j+1][c] = stay
				}
			}
		}
		if e.mapOrder && n > 1 {
			// Go leaves the iteration order of a map unspecified and randomises it: the entry visited
			// at step s is ANY present entry not visited before, chosen by a schedule variable.
			for j := 0; j < n; j++ {
				ok = Or(ok, And(it.Ents[j].P, cnt[j][s]))
			}
			e.nsched++
			c := e.fresh("sched", KBV, 8)
			legal := FalseT
			for j := n - 1; j >= 0; j-- {
				sel := Eq(c, BVC(8, uint64(j)))
				used := FalseT
				for _, p := range it.Sched {
					used = Or(used, Eq(p, BVC(8, uint64(j))))
				}
				legal = Or(legal, And(sel, it.Ents[j].P, Not(used)))
				k = mergeV(st, sel, it.Ents[j].K, k)
				v = mergeV(st, sel, it.Ents[j].V, v)
			}
			e.define(st, Implies(ok, legal))
			sched = append(append(sched, it.Sched...), c)
		} else {
			for j := n - 1; j >= 0; j-- {
				sel := And(it.Ents[j].P, cnt[j][s])
				if sel == FalseT {
					continue
				}
				ok = Or(ok, sel)
				k = mergeV(st, sel, it.Ents[j].K, k)
				v = mergeV(st, sel, it.Ents[j].V, v)
			}
		}
	}
	fr.regs[x.Iter] = &IterV{Ents: it.Ents, Step: s + 1, Sched: sched}
	fr.regs[x] = &TupleV{F: []Value{ok, k, v}}
}

func (e *Engine) makeSlice(st *State, t types.Type, ln *Term) Value {
	if isByteSlice(t) {
		if ln.IsConst && ln.BV == 0 {
			return &BytesV{Nil: FalseT, S: StrC("")}
		}
		panic(unsupported("make([]byte, n) with n != 0"))
	}
	mx := ln.Max
	if mx < 0 {
		mx = e.probeMax(st, ln)
	}
	et := t.Underlying().(*types.Slice).Elem()
	arr := &ArrayV{F: make([]Value, mx)}
	for i := range arr.F {
		arr.F[i] = zero(et)
	}
	o := newObj(types.NewArray(et, mx))
	st.heap[o] = arr
	e.addPanic(st, BVBin("<", ln, BVC(64, 0), true))
	return &SliceV{Nil: FalseT, Len: ln, Arr: o, Max: int(mx)}
}

// probeMax finds a concrete upper bound for a length term by asking the solver.
func (e *Engine) probeMax(st *State, ln *Term) int64 {
	for k := int64(0); k <= 8; k++ {
		if e.infeasible(st, And(st.pc, BVBin(">", ln, BVC(64, uint64(k)), true))) {
			// the bound holds under the current path condition only: it is used for this
			// allocation and never attached to the (shared) term
			return k
		}
	}
	panic(unsupported("length without a bound ≤ 8"))
}

func (e *Engine) indexAddr(fr *Frame, x *ssa.IndexAddr, st *State) Value {
	idx := e.val(fr, x.Index).(*Term)
	et := x.Type().Underlying().(*types.Pointer).Elem()
	dummy := func() Value {
		o := newObj(et)
		st.heap[o] = zero(et)
		return &PtrV{Alts: []PAlt{{G: TrueT, O: o}}}
	}
	switch base := e.val(fr, x.X).(type) {
	case *PtrV: // pointer to array
		if !e.derefBase(st, base) {
			return dummy()
		}
		if !idx.IsConst {
			panic(unsupported("symbolic index into array"))
		}
		return extendPtr(base, int(idx.BV))
	case *SliceV:
		if idx.W != 64 {
			idx = BVConv(idx, idx.W, 64, true)
		}
		inb := And(BVBin(">=", idx, BVC(64, 0), true), BVBin("<", idx, base.Len, true))
		e.addPanic(st, Not(inb))
		if base.Arr == nil || base.Max == 0 {
			st.pc = FalseT
			return dummy()
		}
		if idx.IsConst {
			i := int(idx.BV)
			if i >= base.Max || int64(idx.BV) < 0 {
				st.pc = FalseT
				return dummy()
			}
			return &PtrV{Alts: []PAlt{{G: TrueT, O: base.Arr, Path: []int{base.Off + i}}}}
		}
		r := &PtrV{}
		for k := 0; k < base.Max; k++ {
			g := Eq(idx, BVC(64, uint64(k)))
			if g != FalseT {
				r.Alts = append(r.Alts, PAlt{G: g, O: base.Arr, Path: []int{base.Off + k}})
			}
		}
		if len(r.Alts) == 0 {
			st.pc = FalseT
			return dummy()
		}
		return r
	default:
		panic(unsupported("IndexAddr on %T", base))
	}
}

func (e *Engine) sliceOp(fr *Frame, x *ssa.Slice, st *State) Value {
	conc := func(v ssa.Value) (int, bool) {
		if v == nil {
			return 0, false
		}
		t := e.val(fr, v).(*Term)
		if !t.IsConst {
			panic(unsupported("symbolic slice bound at %s", e.where(x)))
		}
		return int(t.BV), true
	}
	switch base := e.val(fr, x.X).(type) {
	case *PtrV: // array pointer
		if len(base.Alts) != 1 || base.Alts[0].O == nil {
			panic(unsupported("slice of ambiguous array pointer"))
		}
		a := base.Alts[0]
		cell, _ := e.cell(st, a.O)
		arr := getPath(cell, a.Path).(*ArrayV)
		n := len(arr.F)
		lo, _ := conc(x.Low)
		hi, ok := conc(x.High)
		if !ok {
			hi = n
		}
		if len(a.Path) != 0 {
			// copy out into a fresh object so that the slice has its own array
			o := newObj(a.O.typ)
			st.heap[o] = arr
			return &SliceV{Nil: FalseT, Len: BVC(64, uint64(hi-lo)), Arr: o, Off: lo, Max: hi - lo}
		}
		return &SliceV{Nil: FalseT, Len: BVC(64, uint64(hi-lo)), Arr: a.O, Off: lo, Max: hi - lo}
	case *SliceV:
		lo, _ := conc(x.Low)
		hi, hasHi := conc(x.High)
		if !hasHi {
			if !base.Len.IsConst {
				if lo == 0 {
					return base
				}
				// s[lo:] with symbolic length
				e.addPanic(st, BVBin("<", base.Len, BVC(64, uint64(lo)), true))
				nl := BVBin("-", base.Len, BVC(64, uint64(lo)), true)
				nm := base.Max - lo
				if nm < 0 {
					nm = 0
				}
				nl.Max = int64(nm)
				return &SliceV{Nil: base.Nil, Len: nl, Arr: base.Arr, Off: base.Off + lo, Max: nm}
			}
			hi = int(base.Len.BV)
		}
		if base.Len.IsConst {
			if hi > int(base.Len.BV) || lo > hi {
				// may be legal up to cap in Go; capacity is not modelled
				panic(unsupported("reslice beyond length at %s", e.where(x)))
			}
		} else {
			e.addPanic(st, BVBin("<", base.Len, BVC(64, uint64(hi)), true))
		}
		return &SliceV{Nil: And(base.Nil, BoolC(hi == lo)), Len: BVC(64, uint64(hi-lo)), Arr: base.Arr, Off: base.Off + lo, Max: hi - lo}
	case *Term: // string
		return e.strSlice(fr, x, base, st)
	case *BytesV:
		panic(unsupported("slicing of []byte"))
	default:
		panic(unsupported("Slice on %T", base))
	}
}

func retag(v Value, t types.Type) Value {
	if s, ok := v.(*StructV); ok {
		return &StructV{T: t, F: s.F}
	}
	return v
}

func (e *Engine) unop(fr *Frame, x *ssa.UnOp, st *State) Value {
	v := e.val(fr, x.X)
	switch x.Op {
	case token.MUL:
		return e.load(st, v.(*PtrV), x.Type())
	case token.NOT:
		return Not(v.(*Term))
	case token.SUB:
		t := v.(*Term)
		if t.K == KFP {
			if t.IsConst {
				return FPC(t.W, -fpVal(t))
			}
			return mk(KFP, t.W, "fp.neg", t)
		}
		return BVBin("-", BVC(t.W, 0), t, true)
	case token.XOR:
		t := v.(*Term)
		if t.IsConst {
			return BVC(t.W, ^t.BV)
		}
		return mk(KBV, t.W, "bvnot", t)
	}
	panic(unsupported("unop %s", x.Op.String()))
}

func isNilTerm(v Value) *Term {
	switch x := v.(type) {
	case *PtrV:
		var gs []*Term
		for _, a := range x.Alts {
			if a.O == nil {
				gs = append(gs, a.G)
			}
		}
		return Or(gs...)
	case *IfaceV:
		var gs []*Term
		for _, a := range x.Alts {
			if a.T == nil {
				gs = append(gs, a.G)
			}
		}
		return Or(gs...)
	case *MapV:
		var gs []*Term
		for _, a := range x.Alts {
			if a.O == nil {
				gs = append(gs, a.G)
			}
		}
		return Or(gs...)
	case *SliceV:
		return x.Nil
	case *BytesV:
		return x.Nil
	case *FuncV:
		return BoolC(x.Fn == nil)
	}
	panic(unsupported("nil test on %T", v))
}

func isZeroNilConst(v Value) bool {
	switch x := v.(type) {
	case *PtrV:
		return len(x.Alts) == 1 && x.Alts[0].O == nil
	case *IfaceV:
		return len(x.Alts) == 1 && x.Alts[0].T == nil
	case *MapV:
		return len(x.Alts) == 1 && x.Alts[0].O == nil
	case *SliceV:
		return x.Nil == TrueT && x.Max == 0
	case *BytesV:
		return x.Nil == TrueT
	case *FuncV:
		return x.Fn == nil
	}
	return false
}

func (e *Engine) binop(st *State, op token.Token, a, b Value, t types.Type) Value {
	switch x := a.(type) {
	case *Term:
		y := b.(*Term)
		switch x.K {
		case KBool:
			switch op {
			case token.EQL:
				return Eq(x, y)
			case token.NEQ:
				return Not(Eq(x, y))
			case token.AND, token.LAND:
				return And(x, y)
			case token.OR, token.LOR:
				return Or(x, y)
			}
		case KStr:
			switch op {
			case token.EQL:
				return Eq(x, y)
			case token.NEQ:
				return Not(Eq(x, y))
			case token.ADD:
				return StrConcat(x, y)
			case token.LSS, token.LEQ, token.GTR, token.GEQ:
				return strCompare(op, x, y)
			}
		case KFP:
			switch op {
			case token.EQL:
				return Eq(x, y)
			case token.NEQ:
				return Not(Eq(x, y))
			case token.LSS:
				return FPBin("<", x, y)
			case token.LEQ:
				return FPBin("<=", x, y)
			case token.GTR:
				return FPBin(">", x, y)
			case token.GEQ:
				return FPBin(">=", x, y)
			case token.ADD:
				return FPBin("+", x, y)
			case token.SUB:
				return FPBin("-", x, y)
			case token.MUL:
				return FPBin("*", x, y)
			case token.QUO:
				return FPBin("/", x, y)
			}
		case KBV:
			signed := true
			if bt, ok := t.Underlying().(*types.Basic); ok {
				_, signed = bvWidth(bt)
			}
			if (op == token.SHL || op == token.SHR) && y.W != x.W {
				y = BVConv(y, y.W, x.W, false)
			}
			switch op {
			case token.EQL:
				return Eq(x, y)
			case token.NEQ:
				return Not(Eq(x, y))
			case token.ADD:
				return BVBin("+", x, y, signed)
			case token.SUB:
				return BVBin("-", x, y, signed)
			case token.MUL:
				return BVBin("*", x, y, signed)
			case token.QUO:
				e.addPanic(st, Eq(y, BVC(y.W, 0)))
				return BVBin("/", x, y, signed)
			case token.REM:
				e.addPanic(st, Eq(y, BVC(y.W, 0)))
				return BVBin("%", x, y, signed)
			case token.AND:
				return BVBin("&", x, y, signed)
			case token.OR:
				return BVBin("|", x, y, signed)
			case token.XOR:
				return BVBin("^", x, y, signed)
			case token.AND_NOT:
				return BVBin("&^", x, y, signed)
			case token.SHL:
				return BVBin("<<", x, y, signed)
			case token.SHR:
				return BVBin(">>", x, y, signed)
			case token.LSS:
				return BVBin("<", x, y, signed)
			case token.LEQ:
				return BVBin("<=", x, y, signed)
			case token.GTR:
				return BVBin(">", x, y, signed)
			case token.GEQ:
				return BVBin(">=", x, y, signed)
			}
		}
	default:
		if op == token.EQL || op == token.NEQ {
			var r *Term
			switch {
			case isZeroNilConst(b):
				r = isNilTerm(a)
			case isZeroNilConst(a):
				r = isNilTerm(b)
			default:
				r = valueEq(a, b)
			}
			if op == token.NEQ {
				return Not(r)
			}
			return r
		}
	}
	panic(unsupported("binop %s on %T", op, a))
}

func (e *Engine) convert(v Value, from, to types.Type) Value {
	if isByteSlice(to) {
		if s, ok := v.(*Term); ok && s.K == KStr {
			return &BytesV{Nil: FalseT, S: s}
		}
		if bv, ok := v.(*BytesV); ok {
			return bv
		}
	}
	if isByteSlice(from) {
		if tb, ok := to.Underlying().(*types.Basic); ok && tb.Info()&types.IsString != 0 {
			return v.(*BytesV).S
		}
	}
	fb, ok1 := from.Underlying().(*types.Basic)
	tb, ok2 := to.Underlying().(*types.Basic)
	if ok1 && ok2 {
		t := v.(*Term)
		fi, ti := fb.Info(), tb.Info()
		switch {
		case fi&types.IsInteger != 0 && ti&types.IsInteger != 0:
			fw, fs := bvWidth(fb)
			tw, _ := bvWidth(tb)
			return BVConv(t, fw, tw, fs)
		case fi&types.IsFloat != 0 && ti&types.IsFloat != 0:
			if tb.Kind() == types.Float32 {
				return FPConv(t, 32)
			}
			return FPConv(t, 64)
		case fi&types.IsString != 0 && ti&types.IsString != 0:
			return t
		case fi&types.IsBoolean != 0 && ti&types.IsBoolean != 0:
			return t
		case fi&types.IsInteger != 0 && ti&types.IsFloat != 0:
			fw, fs := bvWidth(fb)
			w := 64
			if tb.Kind() == types.Float32 {
				w = 32
			}
			if t.IsConst {
				if fs {
					return FPC(w, float64(sext(t.BV, fw)))
				}
				return FPC(w, float64(t.BV))
			}
			op := "(_ to_fp_unsigned 11 53) RNE"
			if fs {
				op = "(_ to_fp 11 53) RNE"
			}
			if w == 32 {
				op = strings.Replace(op, "11 53", "8 24", 1)
			}
			return mk(KFP, w, op, t)
		case fi&types.IsFloat != 0 && ti&types.IsInteger != 0:
			tw, ts := bvWidth(tb)
			op := fmt.Sprintf("(_ fp.to_ubv %d) RTZ", tw)
			if ts {
				op = fmt.Sprintf("(_ fp.to_sbv %d) RTZ", tw)
			}
			return mk(KBV, tw, op, t)
		case fi&types.IsInteger != 0 && ti&types.IsString != 0:
			if t.IsConst {
				return StrC(string(rune(t.BV)))
			}
			panic(unsupported("string(int) on a symbolic value"))
		}
	}
	if _, ok := to.Underlying().(*types.Pointer); ok {
		if _, ok := v.(*PtrV); ok {
			return v
		}
	}
	panic(unsupported("convert %v -> %v", from, to))
}

func (e *Engine) typeAssert(x *ssa.TypeAssert, iv *IfaceV, st *State) Value {
	at := x.AssertedType
	if types.IsInterface(at) {
		r := &IfaceV{}
		var oks []*Term
		it := at.Underlying().(*types.Interface)
		for _, a := range iv.Alts {
			if a.T != nil && types.Implements(a.T, it) {
				oks = append(oks, a.G)
				r.Alts = append(r.Alts, a)
			}
		}
		ok := Or(oks...)
		if ok != TrueT {
			r.Alts = append(r.Alts, IAlt{G: Not(ok)})
		}
		if x.CommaOk {
			return &TupleV{F: []Value{r, ok}}
		}
		e.addPanic(st, Not(ok))
		return r
	}
	var oks []*Term
	var val Value = zero(at)
	for _, a := range iv.Alts {
		if a.T != nil && types.Identical(a.T, at) {
			oks = append(oks, a.G)
			val = mergeV(st, a.G, retag(a.V, at), val)
		}
	}
	ok := Or(oks...)
	if x.CommaOk {
		return &TupleV{F: []Value{val, ok}}
	}
	e.addPanic(st, Not(ok))
	return val
}

func keyEq(a, b Value) *Term { return valueEq(a, b) }

func (e *Engine) lookup(x *ssa.Lookup, mv Value, k Value, st *State) Value {
	m, ok := mv.(*MapV)
	if !ok {
		if s, ok := mv.(*Term); ok && s.K == KStr {
			return e.strIndex(st, s, k.(*Term))
		}
		panic(unsupported("lookup on %T", mv))
	}
	vt := x.X.Type().Underlying().(*types.Map).Elem()
	var res Value = zero(vt)
	found := FalseT
	for _, ma := range m.Alts {
		if ma.O == nil {
			continue
		}
		mc := st.heap[ma.O].(*MapC)
		for _, en := range mc.Ents {
			hit := And(ma.G, en.P, keyEq(en.K, k))
			if hit == FalseT {
				continue
			}
			res = mergeV(st, hit, en.V, res)
			found = Or(found, hit)
		}
	}
	if x.CommaOk {
		return &TupleV{F: []Value{res, found}}
	}
	return res
}

func (e *Engine) mapUpdate(m *MapV, k, v Value, st *State) {
	nonnil := 0
	for _, ma := range m.Alts {
		if ma.O == nil {
			e.addPanic(st, ma.G)
			continue
		}
		nonnil++
		mc := st.heap[ma.O].(*MapC)
		nc := &MapC{Ents: make([]MEnt, len(mc.Ents))}
		any := FalseT
		same := -1 // a slot whose key is syntactically the inserted key can be reused
		hits := make([]*Term, len(mc.Ents))
		for i, en := range mc.Ents {
			hit := And(en.P, keyEq(en.K, k))
			hits[i] = hit
			nc.Ents[i] = en
			any = Or(any, hit)
			if same < 0 && sameKey(en.K, k) {
				same = i
			}
		}
		fresh := And(ma.G, Not(any)) // the key is new: it needs a slot
		for i, en := range mc.Ents {
			w := And(ma.G, hits[i])
			if i == same {
				w = Or(w, fresh)
				nc.Ents[i].P = Or(en.P, fresh)
			}
			if w != FalseT {
				nc.Ents[i].V = mergeV(st, w, v, en.V)
			}
		}
		if same < 0 && fresh != FalseT {
			nc.Ents = append(nc.Ents, MEnt{P: fresh, K: k, V: v})
		}
		st.heap[ma.O] = nc
	}
	if nonnil == 0 {
		st.pc = FalseT
	}
}

func sameKey(a, b Value) bool {
	x, ok1 := a.(*Term)
	y, ok2 := b.(*Term)
	return ok1 && ok2 && x == y
}

func (e *Engine) mapDelete(m *MapV, k Value, st *State) {
	for _, ma := range m.Alts {
		if ma.O == nil {
			continue
		}
		mc := st.heap[ma.O].(*MapC)
		nc := &MapC{Ents: make([]MEnt, len(mc.Ents))}
		for i, en := range mc.Ents {
			nc.Ents[i] = en
			nc.Ents[i].P = And(en.P, Not(And(ma.G, keyEq(en.K, k))))
		}
		st.heap[ma.O] = nc
	}
}

func mapLen(m *MapV, st *State) *Term {
	total := BVC(64, 0)
	mx := int64(0)
	for _, ma := range m.Alts {
		if ma.O == nil {
			continue
		}
		for _, en := range st.heap[ma.O].(*MapC).Ents {
			p := And(ma.G, en.P)
			if p == FalseT {
				continue
			}
			total = BVBin("+", total, Ite(p, BVC(64, 1), BVC(64, 0)), true)
			mx++
		}
	}
	if !total.IsConst {
		total.Max = mx
	}
	return total
}

func (e *Engine) appendSlices(st *State, t types.Type, a, b *SliceV) Value {
	ca, cb := sliceCells(st, a), sliceCells(st, b)
	et := t.Underlying().(*types.Slice).Elem()
	n := a.Max + b.Max
	arr := &ArrayV{F: make([]Value, n)}
	for i := 0; i < n; i++ {
		// cell i = a[i] if i < len(a) else b[i-len(a)]
		var v Value = zero(et)
		// candidates from b: len(a) == L, element b[i-L]
		for L := 0; L <= a.Max && L <= i; L++ {
			j := i - L
			if j < len(cb) {
				g := Eq(a.Len, BVC(64, uint64(L)))
				if g != FalseT {
					v = mergeV(st, g, cb[j], v)
				}
			}
		}
		if i < len(ca) {
			v = mergeV(st, BVBin("<", BVC(64, uint64(i)), a.Len, true), ca[i], v)
		}
		arr.F[i] = v
	}
	o := newObj(types.NewArray(et, int64(n)))
	st.heap[o] = arr
	ln := BVBin("+", a.Len, b.Len, true)
	if !ln.IsConst {
		ln.Max = int64(n)
	}
	return &SliceV{Nil: And(a.Nil, Eq(b.Len, BVC(64, 0))), Len: ln, Arr: o, Max: n}
}

func (e *Engine) doCall(fr *Frame, x *ssa.Call, st *State) *State {
	c := x.Call
	var args []Value
	if c.IsInvoke() {
		recv := e.val(fr, c.Value).(*IfaceV)
		for _, a := range c.Args {
			args = append(args, e.val(fr, a))
		}
		fr.regs[x], st = e.invoke(recv, c.Method, args, st, x)
		return st
	}
	for _, a := range c.Args {
		args = append(args, e.val(fr, a))
	}
	switch f := c.Value.(type) {
	case *ssa.Builtin:
		switch f.Name() {
		case "len":
			switch a := args[0].(type) {
			case *SliceV:
				fr.regs[x] = a.Len
			case *MapV:
				fr.regs[x] = mapLen(a, st)
			case *Term:
				fr.regs[x] = e.strLenBV(a)
			case *BytesV:
				fr.regs[x] = e.strLenBV(a.S)
			default:
				panic(unsupported("len of %T", a))
			}
		case "cap":
			switch a := args[0].(type) {
			case *SliceV:
				fr.regs[x] = a.Len
			default:
				panic(unsupported("cap of %T", a))
			}
		case "append":
			a, ok1 := args[0].(*SliceV)
			b, ok2 := args[1].(*SliceV)
			if !ok1 || !ok2 {
				panic(unsupported("append on %T, %T", args[0], args[1]))
			}
			fr.regs[x] = e.appendSlices(st, x.Type(), a, b)
		case "delete":
			e.mapDelete(args[0].(*MapV), args[1], st)
		case "print", "println":
		default:
			panic(unsupported("builtin %s", f.Name()))
		}
		return st
	case *ssa.Function:
		fr.regs[x], st = e.call(f, args, nil, st)
		return st
	case *ssa.MakeClosure:
		fv := e.val(fr, f).(*FuncV)
		fr.regs[x], st = e.call(fv.Fn, args, fv.Binds, st)
		return st
	default:
		fv, ok := e.val(fr, c.Value).(*FuncV)
		if !ok || fv.Fn == nil {
			panic(unsupported("call of %T", c.Value))
		}
		fr.regs[x], st = e.call(fv.Fn, args, fv.Binds, st)
		return st
	}
}

func (e *Engine) invoke(recv *IfaceV, m *types.Func, args []Value, st *State, site *ssa.Call) (Value, *State) {
	if v, st2, ok := e.invokeIntrinsic(recv, m, args, st); ok {
		return v, st2
	}
	// group alternatives by dynamic type
	type grp struct {
		T types.Type
		G *Term
		V Value
	}
	var groups []grp
	for _, a := range recv.Alts {
		if a.G == FalseT {
			continue
		}
		if a.T == nil {
			e.addPanic(st, a.G)
			continue
		}
		done := false
		for i := range groups {
			if types.Identical(groups[i].T, a.T) {
				groups[i].V = mergeV(st, a.G, a.V, groups[i].V)
				groups[i].G = Or(groups[i].G, a.G)
				done = true
				break
			}
		}
		if !done {
			groups = append(groups, grp{a.T, a.G, a.V})
		}
	}
	if len(groups) == 0 {
		st.pc = FalseT
		return zeroOfSig(m), st
	}
	callOne := func(g grp, s *State) (Value, *State) {
		fn := e.prog.LookupMethod(g.T, m.Pkg(), m.Name())
		if fn == nil {
			panic(unsupported("no method %s on %s", m.Name(), g.T))
		}
		return e.call(fn, append([]Value{g.V}, args...), nil, s)
	}
	if len(groups) == 1 {
		return callOne(groups[0], st)
	}
	// several dynamic types: execute each under its guard and merge
	var rv Value
	var rs *State
	for i := len(groups) - 1; i >= 0; i-- {
		g := groups[i]
		s := st.clone()
		s.pc = And(st.pc, g.G)
		v, s2 := callOne(g, s)
		if rs == nil {
			rv, rs = v, s2
			continue
		}
		ms := mergeState(g.G, s2, rs, st.pc)
		rv = mergeV(ms, g.G, v, rv)
		rs = ms
	}
	rs.pc = st.pc
	return rv, rs
}

func zeroOfSig(m *types.Func) Value {
	res := m.Type().(*types.Signature).Results()
	switch res.Len() {
	case 0:
		return nil
	case 1:
		return zero(res.At(0).Type())
	}
	return zero(res)
}

func (e *Engine) where(ins interface{ Pos() token.Pos }) string {
	p := e.prog.Fset.Position(ins.Pos())
	if !p.IsValid() {
		return "?"
	}
	f := p.Filename
	if i := strings.LastIndex(f, "/"); i >= 0 {
		f = f[i+1:]
	}
	return fmt.Sprintf("%s:%d", f, p.Line)
}
