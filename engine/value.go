package main

// Engine values: records, guarded pointers/interfaces/maps, slices with a
// symbolic length over a concrete-capacity backing array.

import (
	"fmt"
	"go/types"

	"golang.org/x/tools/go/ssa"
)

type Value interface{}

type Obj struct {
	id  int
	typ types.Type
	tag string
}

type StructV struct {
	T types.Type
	F []Value
}
type ArrayV struct{ F []Value }
type PAlt struct {
	G    *Term
	O    *Obj // nil => nil pointer
	Path []int
}
type PtrV struct{ Alts []PAlt }
type IAlt struct {
	G *Term
	T types.Type // nil => nil interface
	V Value
}
type IfaceV struct{ Alts []IAlt }
type SliceV struct {
	Nil *Term
	Len *Term // BV64
	Arr *Obj  // backing array object holding an *ArrayV; nil when Max == 0
	Off int   // concrete offset into the backing array
	Max int   // concrete upper bound on Len
}
type BytesV struct {
	Nil *Term
	S   *Term
}
type MAlt struct {
	G *Term
	O *Obj
}
type MapV struct{ Alts []MAlt }
type MEnt struct {
	P *Term
	K Value
	V Value
}
type MapC struct{ Ents []MEnt }
type TupleV struct{ F []Value }
type IterV struct {
	Ents  []MEnt
	Step  int
	Sched []*Term // -maporder: the slot chosen at each earlier step (schedule variables)
}
type FuncV struct {
	Fn    *ssa.Function
	Binds []Value
}
type OpaqueV struct {
	Name string
	Arg  Value
}

// PoisonV marks a value the engine could not compute (tolerant init only); any use fails closed.
type PoisonV struct{ Why string }

var objCount int

func newObj(t types.Type) *Obj { objCount++; return &Obj{id: objCount, typ: t} }

func isByteSlice(t types.Type) bool {
	s, ok := t.Underlying().(*types.Slice)
	if !ok {
		return false
	}
	b, ok := s.Elem().Underlying().(*types.Basic)
	return ok && b.Kind() == types.Uint8
}

func bvWidth(b *types.Basic) (int, bool) {
	switch b.Kind() {
	case types.Int8:
		return 8, true
	case types.Uint8:
		return 8, false
	case types.Int16:
		return 16, true
	case types.Uint16:
		return 16, false
	case types.Int32, types.UntypedRune:
		return 32, true
	case types.Uint32:
		return 32, false
	case types.Int64, types.Int:
		return 64, true
	case types.Uint64, types.Uint, types.Uintptr:
		return 64, false
	case types.UntypedInt:
		return 64, true
	}
	return 0, false
}

func zero(t types.Type) Value {
	if isByteSlice(t) {
		return &BytesV{Nil: TrueT, S: StrC("")}
	}
	switch u := t.Underlying().(type) {
	case *types.Basic:
		switch {
		case u.Info()&types.IsBoolean != 0:
			return FalseT
		case u.Info()&types.IsString != 0:
			return StrC("")
		case u.Info()&types.IsFloat != 0:
			if u.Kind() == types.Float32 {
				return FPC(32, 0)
			}
			return FPC(64, 0)
		case u.Info()&types.IsInteger != 0:
			w, _ := bvWidth(u)
			return BVC(w, 0)
		case u.Kind() == types.UnsafePointer:
			return &PtrV{Alts: []PAlt{{G: TrueT}}}
		case u.Kind() == types.UntypedNil:
			return &PtrV{Alts: []PAlt{{G: TrueT}}}
		}
	case *types.Struct:
		s := &StructV{T: t, F: make([]Value, u.NumFields())}
		for i := range s.F {
			s.F[i] = zero(u.Field(i).Type())
		}
		return s
	case *types.Array:
		a := &ArrayV{F: make([]Value, u.Len())}
		for i := range a.F {
			a.F[i] = zero(u.Elem())
		}
		return a
	case *types.Pointer:
		return &PtrV{Alts: []PAlt{{G: TrueT}}}
	case *types.Interface:
		return &IfaceV{Alts: []IAlt{{G: TrueT}}}
	case *types.Slice:
		return &SliceV{Nil: TrueT, Len: BVC(64, 0), Max: 0}
	case *types.Map:
		return &MapV{Alts: []MAlt{{G: TrueT}}}
	case *types.Signature:
		return &FuncV{}
	case *types.Chan:
		return &OpaqueV{Name: "chan"}
	case *types.Tuple:
		tv := &TupleV{F: make([]Value, u.Len())}
		for i := range tv.F {
			tv.F[i] = zero(u.At(i).Type())
		}
		return tv
	}
	panic(unsupported("zero: unsupported type %v", t))
}

func getPath(v Value, path []int) Value {
	for _, i := range path {
		switch x := v.(type) {
		case *StructV:
			v = x.F[i]
		case *ArrayV:
			if i >= len(x.F) {
				panic(unsupported("getPath: index %d beyond array of %d", i, len(x.F)))
			}
			v = x.F[i]
		default:
			panic(unsupported("getPath on %T", v))
		}
	}
	return v
}

func setPath(v Value, path []int, nv Value) Value {
	if len(path) == 0 {
		return nv
	}
	i := path[0]
	switch x := v.(type) {
	case *StructV:
		c := &StructV{T: x.T, F: append([]Value(nil), x.F...)}
		c.F[i] = setPath(x.F[i], path[1:], nv)
		return c
	case *ArrayV:
		c := &ArrayV{F: append([]Value(nil), x.F...)}
		c.F[i] = setPath(x.F[i], path[1:], nv)
		return c
	}
	panic(unsupported("setPath on %T", v))
}

// ---------- state ----------

type State struct {
	heap    map[*Obj]Value
	pc      *Term // structural path condition (branch conditions)
	assumes *Term // conjunction of assumptions made so far
}

func (s *State) clone() *State {
	h := make(map[*Obj]Value, len(s.heap)+8)
	for k, v := range s.heap {
		h[k] = v
	}
	return &State{heap: h, pc: s.pc, assumes: s.assumes}
}

// mergeV merges two values under condition c (c ? a : b). st receives fresh objects.
func mergeV(st *State, c *Term, a, b Value) Value {
	if a == b {
		return a
	}
	if a == nil {
		return b
	}
	if b == nil {
		return a
	}
	if c == TrueT {
		return a
	}
	if c == FalseT {
		return b
	}
	if _, ok := a.(*PoisonV); ok {
		return a
	}
	if _, ok := b.(*PoisonV); ok {
		return b
	}
	switch x := a.(type) {
	case *Term:
		y, ok := b.(*Term)
		if !ok {
			panic(unsupported("mergeV: Term vs %T", b))
		}
		return Ite(c, x, y)
	case *StructV:
		y := b.(*StructV)
		r := &StructV{T: x.T, F: make([]Value, len(x.F))}
		same := true
		for i := range x.F {
			r.F[i] = mergeV(st, c, x.F[i], y.F[i])
			if r.F[i] != x.F[i] {
				same = false
			}
		}
		if same {
			return x
		}
		return r
	case *ArrayV:
		y := b.(*ArrayV)
		n := len(x.F)
		if len(y.F) > n {
			n = len(y.F)
		}
		r := &ArrayV{F: make([]Value, n)}
		for i := 0; i < n; i++ {
			var xa, yb Value
			if i < len(x.F) {
				xa = x.F[i]
			}
			if i < len(y.F) {
				yb = y.F[i]
			}
			r.F[i] = mergeV(st, c, xa, yb)
		}
		return r
	case *TupleV:
		y := b.(*TupleV)
		r := &TupleV{F: make([]Value, len(x.F))}
		for i := range x.F {
			r.F[i] = mergeV(st, c, x.F[i], y.F[i])
		}
		return r
	case *BytesV:
		y := b.(*BytesV)
		return &BytesV{Nil: Ite(c, x.Nil, y.Nil), S: Ite(c, x.S, y.S)}
	case *PtrV:
		y := b.(*PtrV)
		r := &PtrV{}
		for _, al := range x.Alts {
			r.Alts = append(r.Alts, PAlt{G: And(c, al.G), O: al.O, Path: al.Path})
		}
	outer:
		for _, al := range y.Alts {
			g := And(Not(c), al.G)
			for i, ex := range r.Alts {
				if ex.O == al.O && samePath(ex.Path, al.Path) {
					r.Alts[i].G = Or(ex.G, g)
					continue outer
				}
			}
			r.Alts = append(r.Alts, PAlt{G: g, O: al.O, Path: al.Path})
		}
		return prunePtr(r)
	case *IfaceV:
		y := b.(*IfaceV)
		if len(x.Alts) == 1 && len(y.Alts) == 1 && x.Alts[0].G == TrueT && y.Alts[0].G == TrueT &&
			x.Alts[0].T != nil && y.Alts[0].T != nil && types.Identical(x.Alts[0].T, y.Alts[0].T) {
			return &IfaceV{Alts: []IAlt{{G: TrueT, T: x.Alts[0].T, V: mergeV(st, c, x.Alts[0].V, y.Alts[0].V)}}}
		}
		r := &IfaceV{}
		for _, al := range x.Alts {
			if g := And(c, al.G); g != FalseT {
				r.Alts = append(r.Alts, IAlt{G: g, T: al.T, V: al.V})
			}
		}
		for _, al := range y.Alts {
			g := And(Not(c), al.G)
			if g == FalseT {
				continue
			}
			merged := false
			for i, ex := range r.Alts {
				if (ex.T == nil && al.T == nil) || (ex.T != nil && al.T != nil && types.Identical(ex.T, al.T)) {
					// same dynamic type: merge payloads under the second guard
					var pv Value
					if ex.T != nil {
						pv = mergeV(st, g, al.V, ex.V)
					}
					r.Alts[i] = IAlt{G: Or(ex.G, g), T: ex.T, V: pv}
					merged = true
					break
				}
			}
			if !merged {
				r.Alts = append(r.Alts, IAlt{G: g, T: al.T, V: al.V})
			}
		}
		return r
	case *MapV:
		y := b.(*MapV)
		r := &MapV{}
		for _, al := range x.Alts {
			if g := And(c, al.G); g != FalseT {
				r.Alts = append(r.Alts, MAlt{G: g, O: al.O})
			}
		}
	outer2:
		for _, al := range y.Alts {
			g := And(Not(c), al.G)
			if g == FalseT {
				continue
			}
			for i, ex := range r.Alts {
				if ex.O == al.O {
					r.Alts[i].G = Or(ex.G, g)
					continue outer2
				}
			}
			r.Alts = append(r.Alts, MAlt{G: g, O: al.O})
		}
		return r
	case *SliceV:
		y := b.(*SliceV)
		r := &SliceV{Nil: Ite(c, x.Nil, y.Nil), Len: Ite(c, x.Len, y.Len), Max: x.Max}
		if y.Max > r.Max {
			r.Max = y.Max
		}
		switch {
		case x.Arr == y.Arr && x.Off == y.Off:
			r.Arr, r.Off = x.Arr, x.Off
		case x.Arr == nil || x.Max == 0:
			r.Arr, r.Off = y.Arr, y.Off
		case y.Arr == nil || y.Max == 0:
			r.Arr, r.Off = x.Arr, x.Off
		default:
			// distinct backing arrays: materialise a merged copy (aliasing through the
			// old arrays is lost; recorded as an engine assumption)
			ax := sliceCells(st, x)
			ay := sliceCells(st, y)
			n := len(ax)
			if len(ay) > n {
				n = len(ay)
			}
			arr := &ArrayV{F: make([]Value, n)}
			for i := 0; i < n; i++ {
				var xa, yb Value
				if i < len(ax) {
					xa = ax[i]
				}
				if i < len(ay) {
					yb = ay[i]
				}
				arr.F[i] = mergeV(st, c, xa, yb)
			}
			no := newObj(x.Arr.typ)
			st.heap[no] = arr
			r.Arr, r.Off = no, 0
		}
		return r
	case *MapC:
		y := b.(*MapC)
		n := len(x.Ents)
		if len(y.Ents) < n {
			n = len(y.Ents)
		}
		r := &MapC{}
		for i := 0; i < n; i++ {
			ea, eb := x.Ents[i], y.Ents[i]
			r.Ents = append(r.Ents, MEnt{P: Ite(c, ea.P, eb.P), K: mergeV(st, c, ea.K, eb.K), V: mergeV(st, c, ea.V, eb.V)})
		}
		for _, e := range x.Ents[n:] {
			r.Ents = append(r.Ents, MEnt{P: And(c, e.P), K: e.K, V: e.V})
		}
		for _, e := range y.Ents[n:] {
			r.Ents = append(r.Ents, MEnt{P: And(Not(c), e.P), K: e.K, V: e.V})
		}
		return r
	case *FuncV:
		y, ok := b.(*FuncV)
		if ok && x.Fn == y.Fn {
			return x
		}
		panic(unsupported("merge of distinct function values"))
	case *OpaqueV:
		return a
	case *IterV:
		y := b.(*IterV)
		if x.Step != y.Step {
			// only happens at the loop exit, where the iterator is dead
			return &IterV{Step: -1}
		}
		return x
	}
	panic(unsupported("mergeV: %T vs %T", a, b))
}

// sliceCells returns the cells [Off, Off+Max) of a slice's backing array.
func sliceCells(st *State, s *SliceV) []Value {
	if s.Arr == nil || s.Max == 0 {
		return nil
	}
	arr := st.heap[s.Arr].(*ArrayV)
	hi := s.Off + s.Max
	if hi > len(arr.F) {
		hi = len(arr.F)
	}
	return arr.F[s.Off:hi]
}

func samePath(a, b []int) bool {
	if len(a) != len(b) {
		return false
	}
	for i := range a {
		if a[i] != b[i] {
			return false
		}
	}
	return true
}

func prunePtr(p *PtrV) *PtrV {
	r := &PtrV{}
	for _, a := range p.Alts {
		if a.G != FalseT {
			r.Alts = append(r.Alts, a)
		}
	}
	if len(r.Alts) == 0 {
		r.Alts = append(r.Alts, PAlt{G: TrueT})
	}
	return r
}

func mergeState(c *Term, a, b *State, pc *Term) *State {
	r := &State{heap: make(map[*Obj]Value, len(a.heap)), pc: pc}
	if a.assumes == b.assumes {
		r.assumes = a.assumes
	} else {
		r.assumes = And(a.assumes, b.assumes)
	}
	for k, v := range a.heap {
		r.heap[k] = v
	}
	var todo []*Obj
	for k, vb := range b.heap {
		if va, ok := a.heap[k]; ok {
			if va != vb {
				todo = append(todo, k)
			}
		} else {
			r.heap[k] = vb
		}
	}
	for _, k := range todo {
		r.heap[k] = mergeV(r, c, a.heap[k], b.heap[k])
	}
	return r
}

// valueEq builds the Go == of two engine values of the same static type.
func valueEq(a, b Value) *Term {
	switch x := a.(type) {
	case *Term:
		return Eq(x, b.(*Term))
	case *StructV:
		y := b.(*StructV)
		var cs []*Term
		for i := range x.F {
			cs = append(cs, valueEq(x.F[i], y.F[i]))
		}
		return And(cs...)
	case *ArrayV:
		y := b.(*ArrayV)
		var cs []*Term
		for i := range x.F {
			cs = append(cs, valueEq(x.F[i], y.F[i]))
		}
		return And(cs...)
	case *PtrV:
		y := b.(*PtrV)
		var ds []*Term
		for _, p := range x.Alts {
			for _, q := range y.Alts {
				if p.O == q.O && samePath(p.Path, q.Path) {
					ds = append(ds, And(p.G, q.G))
				}
			}
		}
		return Or(ds...)
	case *IfaceV:
		y := b.(*IfaceV)
		var ds []*Term
		for _, p := range x.Alts {
			for _, q := range y.Alts {
				switch {
				case p.T == nil && q.T == nil:
					ds = append(ds, And(p.G, q.G))
				case p.T != nil && q.T != nil && types.Identical(p.T, q.T):
					ds = append(ds, And(p.G, q.G, valueEq(p.V, q.V)))
				}
			}
		}
		return Or(ds...)
	case *OpaqueV:
		y, ok := b.(*OpaqueV)
		return BoolC(ok && x.Name == y.Name)
	}
	panic(unsupported("equality on %T", a))
}

func describe(v Value) string {
	switch x := v.(type) {
	case *Term:
		if x.IsConst {
			switch x.K {
			case KBool:
				return fmt.Sprint(x.B)
			case KStr:
				return fmt.Sprintf("%q", x.S)
			default:
				return fmt.Sprint(x.BV)
			}
		}
		return "<sym>"
	}
	return fmt.Sprintf("%T", v)
}
