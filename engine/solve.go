package main

// Solver driver: one long-lived process per worker, (reset) per query, cone of
// influence per query, model extraction for counterexamples and witnesses.

import (
	"bufio"
	"fmt"
	"io"
	"os"
	"os/exec"
	"strconv"
	"strings"
	"time"
)

type Solver struct {
	name string
	cmd  *exec.Cmd
	in   io.WriteCloser
	out  *bufio.Reader
}

func solverArgv(name string) []string {
	switch name {
	case "z3":
		return []string{"/usr/bin/z3", "-in"}
	case "z3-new":
		return []string{"z3-new", "-in"}
	case "cvc5":
		return []string{"cvc5", "--incremental", "--strings-exp", "--produce-models", "--lang", "smt2"}
	}
	return []string{name, "-in"}
}

func NewSolver(name string) (*Solver, error) {
	argv := solverArgv(name)
	cmd := exec.Command(argv[0], argv[1:]...)
	in, err := cmd.StdinPipe()
	if err != nil {
		return nil, err
	}
	out, err := cmd.StdoutPipe()
	if err != nil {
		return nil, err
	}
	cmd.Stderr = cmd.Stdout
	if err := cmd.Start(); err != nil {
		return nil, err
	}
	return &Solver{name: name, cmd: cmd, in: in, out: bufio.NewReaderSize(out, 1<<20)}, nil
}

func (s *Solver) Close() {
	if s == nil || s.cmd == nil {
		return
	}
	s.in.Close()
	done := make(chan struct{})
	go func() { s.cmd.Wait(); close(done) }()
	select {
	case <-done:
	case <-time.After(2 * time.Second):
		s.cmd.Process.Kill()
	}
}

func (s *Solver) restart() error {
	s.cmd.Process.Kill()
	s.cmd.Wait()
	n, err := NewSolver(s.name)
	if err != nil {
		return err
	}
	*s = *n
	return nil
}

const endMark = "@@END@@"

func (s *Solver) roundTrip(script string, hard time.Duration) ([]string, error) {
	type res struct {
		lines []string
		err   error
	}
	ch := make(chan res, 2)
	// the write happens in its own goroutine: a solver that is busy while it still reads the script
	// (z3 4.8.12 simplifies at assert time) would otherwise block the caller past the hard timeout
	in := s.in
	go func() {
		if _, err := io.WriteString(in, script+"\n(echo \""+endMark+"\")\n"); err != nil {
			ch <- res{nil, err}
		}
	}()
	out := s.out
	go func() {
		var lines []string
		for {
			l, err := out.ReadString('\n')
			if err != nil {
				ch <- res{lines, err}
				return
			}
			l = strings.TrimRight(l, "\r\n")
			if strings.Contains(l, endMark) {
				ch <- res{lines, nil}
				return
			}
			lines = append(lines, l)
		}
	}()
	select {
	case r := <-ch:
		return r.lines, r.err
	case <-time.After(hard):
		s.restart()
		return nil, fmt.Errorf("solver hard timeout")
	}
}

// Check sends a fresh query; verdict is sat | unsat | unknown | error:<text>.
func (s *Solver) Check(script string, timeoutMs int) string {
	pre := "(reset)\n"
	if s.name == "cvc5" {
		pre += fmt.Sprintf("(set-option :tlimit-per %d)\n(set-logic ALL)\n", timeoutMs)
	} else {
		pre += fmt.Sprintf("(set-option :timeout %d)\n", timeoutMs)
	}
	lines, err := s.roundTrip(pre+script+"(check-sat)\n", time.Duration(timeoutMs)*time.Millisecond*2+5*time.Second)
	if err != nil {
		return "error:" + err.Error()
	}
	verdict := ""
	for _, l := range lines {
		t := strings.TrimSpace(l)
		switch {
		case strings.HasPrefix(t, "(error"):
			return "error:" + t
		case t == "sat" || t == "unsat" || t == "unknown" || t == "timeout":
			if verdict == "" {
				verdict = t
			}
		}
	}
	if verdict == "timeout" {
		verdict = "unknown"
	}
	if verdict == "" {
		return "error:no verdict: " + strings.Join(lines, " | ")
	}
	return verdict
}

// Values asks for the model values of names after a sat answer (same context).
func (s *Solver) Values(names []string) (map[string]string, error) {
	res := map[string]string{}
	for i := 0; i < len(names); i += 200 {
		j := i + 200
		if j > len(names) {
			j = len(names)
		}
		lines, err := s.roundTrip("(get-value ("+strings.Join(names[i:j], " ")+"))", 30*time.Second)
		if err != nil {
			return nil, err
		}
		txt := strings.Join(lines, "\n")
		if strings.Contains(txt, "(error") {
			return nil, fmt.Errorf("get-value: %s", txt)
		}
		sx, err := parseSexp(txt)
		if err != nil {
			return nil, err
		}
		for _, pair := range sx.list {
			if len(pair.list) == 2 {
				res[pair.list[0].atom] = pair.list[1].String()
			}
		}
	}
	return res, nil
}

type sexp struct {
	atom string
	list []*sexp
	isL  bool
}

func (s *sexp) String() string {
	if !s.isL {
		return s.atom
	}
	parts := make([]string, len(s.list))
	for i, c := range s.list {
		parts[i] = c.String()
	}
	return "(" + strings.Join(parts, " ") + ")"
}

func parseSexp(txt string) (*sexp, error) {
	pos := 0
	var parse func() (*sexp, error)
	skip := func() {
		for pos < len(txt) && (txt[pos] == ' ' || txt[pos] == '\n' || txt[pos] == '\t' || txt[pos] == '\r') {
			pos++
		}
	}
	parse = func() (*sexp, error) {
		skip()
		if pos >= len(txt) {
			return nil, fmt.Errorf("unexpected end of s-expression")
		}
		if txt[pos] == '(' {
			pos++
			n := &sexp{isL: true}
			for {
				skip()
				if pos >= len(txt) {
					return nil, fmt.Errorf("unterminated list")
				}
				if txt[pos] == ')' {
					pos++
					return n, nil
				}
				c, err := parse()
				if err != nil {
					return nil, err
				}
				n.list = append(n.list, c)
			}
		}
		if txt[pos] == '"' {
			start := pos
			pos++
			for pos < len(txt) {
				if txt[pos] == '"' {
					if pos+1 < len(txt) && txt[pos+1] == '"' {
						pos += 2
						continue
					}
					pos++
					break
				}
				pos++
			}
			return &sexp{atom: txt[start:pos]}, nil
		}
		start := pos
		for pos < len(txt) && !strings.ContainsRune(" \n\t\r()", rune(txt[pos])) {
			pos++
		}
		return &sexp{atom: txt[start:pos]}, nil
	}
	return parse()
}

// decodeBV parses #x.. / #b.. / (_ bvN w) into an unsigned value.
func decodeBV(v string) (uint64, bool) {
	switch {
	case strings.HasPrefix(v, "#x"):
		n, err := strconv.ParseUint(v[2:], 16, 64)
		return n, err == nil
	case strings.HasPrefix(v, "#b"):
		n, err := strconv.ParseUint(v[2:], 2, 64)
		return n, err == nil
	case strings.HasPrefix(v, "(_ bv"):
		f := strings.Fields(strings.Trim(v, "()"))
		if len(f) >= 2 {
			n, err := strconv.ParseUint(strings.TrimPrefix(f[1], "bv"), 10, 64)
			return n, err == nil
		}
	}
	return 0, false
}

// decodeSMTString turns an SMT-LIB string literal into a Go string.
func decodeSMTString(v string) string {
	if len(v) < 2 || v[0] != '"' {
		return v
	}
	v = v[1 : len(v)-1]
	v = strings.ReplaceAll(v, `""`, `"`)
	var sb strings.Builder
	for i := 0; i < len(v); i++ {
		if v[i] == '\\' && i+1 < len(v) && v[i+1] == 'u' {
			j := i + 2
			hex := ""
			if j < len(v) && v[j] == '{' {
				k := strings.IndexByte(v[j:], '}')
				if k > 0 {
					hex = v[j+1 : j+k]
					j = j + k + 1
				}
			} else if j+4 <= len(v) {
				hex = v[j : j+4]
				j += 4
			}
			if n, err := strconv.ParseUint(hex, 16, 32); err == nil && hex != "" {
				if n < 256 {
					sb.WriteByte(byte(n))
				} else {
					sb.WriteRune(rune(n))
				}
				i = j - 1
				continue
			}
		}
		if v[i] == '\\' && i+1 < len(v) && v[i+1] == 'x' && i+3 < len(v) {
			if n, err := strconv.ParseUint(v[i+2:i+4], 16, 8); err == nil {
				sb.WriteByte(byte(n))
				i += 3
				continue
			}
		}
		sb.WriteByte(v[i])
	}
	return sb.String()
}

// ---------- queries ----------

type Query struct {
	Script string
	Names  []string // variables declared in the cone
	Lits   map[string]string
	Const  string // "" | "sat" | "unsat" when the formula folded to a constant
	Rest   *Query // the assumptions sliced away (disjoint variables), for model completion
}

func buildQuery(conj ...*Term) *Query {
	f := And(conj...)
	if f == FalseT {
		return &Query{Const: "unsat"}
	}
	em := NewEmitter()
	em.define(f)
	q := &Query{Lits: map[string]string{}}
	var sb strings.Builder
	sb.WriteString(em.prelude())
	if f != TrueT {
		fmt.Fprintf(&sb, "(assert %s)\n", em.ref(f))
	}
	q.Script = sb.String()
	for _, v := range em.vars {
		q.Names = append(q.Names, v.Name)
	}
	for _, l := range em.lits {
		q.Lits[em.ref(l)] = l.S
	}
	return q
}

var varsMemo = map[int][]int{}

// varsOf returns the ids of the variables (and uninterpreted-function symbols) a term mentions.
func varsOf(t *Term) []int {
	if v, ok := varsMemo[t.id]; ok {
		return v
	}
	set := map[int]bool{}
	if t.Op == "var" {
		set[t.id] = true
	}
	if strings.HasPrefix(t.Op, "uf:") {
		set[-1-len(t.Op)] = true // all applications of one UF belong together
	}
	for _, a := range t.Args {
		for _, v := range varsOf(a) {
			set[v] = true
		}
	}
	out := make([]int, 0, len(set))
	for v := range set {
		out = append(out, v)
	}
	varsMemo[t.id] = out
	return out
}

func conjuncts(t *Term) []*Term {
	if t.Op == "and" {
		return t.Args
	}
	if t == TrueT {
		return nil
	}
	return []*Term{t}
}

// sliceAssumes keeps the conjuncts of the assumptions that share variables (transitively) with the
// goals. The dropped conjuncts constrain disjoint variables; they are solved separately when a model
// has to be completed, so that dropping them can neither hide nor fabricate a counterexample.
func sliceAssumes(assumes *Term, goals ...*Term) (kept, dropped []*Term) {
	cs := conjuncts(assumes)
	rel := map[int]bool{}
	for _, g := range goals {
		for _, v := range varsOf(g) {
			rel[v] = true
		}
	}
	in := make([]bool, len(cs))
	for changed := true; changed; {
		changed = false
		for i, c := range cs {
			if in[i] {
				continue
			}
			vs := varsOf(c)
			hit := len(vs) == 0
			for _, v := range vs {
				if rel[v] {
					hit = true
					break
				}
			}
			if hit {
				in[i] = true
				changed = true
				for _, v := range vs {
					rel[v] = true
				}
			}
		}
	}
	for i, c := range cs {
		if in[i] {
			kept = append(kept, c)
		} else {
			dropped = append(dropped, c)
		}
	}
	return
}

// buildSliced builds the query for goals under the relevant slice of the assumptions.
func buildSliced(assumes *Term, goals ...*Term) *Query {
	kept, dropped := sliceAssumes(assumes, goals...)
	q := buildQuery(append(kept, goals...)...)
	if len(dropped) > 0 {
		q.Rest = buildQuery(dropped...)
	}
	return q
}

// infeasible asks the in-line solver whether cond (with the current assumptions) is unsatisfiable.
func (e *Engine) infeasible(st *State, cond *Term) bool {
	q := buildSliced(st.assumes, cond, Not(e.panicC))
	if q.Const == "unsat" {
		return true
	}
	if e.feas == nil {
		s, err := NewSolver(e.solverName)
		if err != nil {
			panic(unsupported("cannot start solver: %v", err))
		}
		e.feas = s
	}
	e.nfeas++
	if d := os.Getenv("GOSYM_DUMPFEAS"); d != "" {
		os.WriteFile(fmt.Sprintf("%s/feas%04d.smt2", d, e.nfeas), []byte(q.Script+"(check-sat)\n"), 0644)
	}
	t0 := time.Now()
	v := e.feas.Check(q.Script, 2000)
	if os.Getenv("GOSYM_TRACE") != "" {
		fmt.Fprintf(os.Stderr, "feas #%d %s %dms script=%dB\n", e.nfeas, v, time.Since(t0).Milliseconds(), len(q.Script))
	}
	return v == "unsat"
}
