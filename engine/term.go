package main

// Hash-consed SMT terms with constant folding and light simplification.

import (
	"fmt"
	"math"
	"os"
	"sort"
	"strconv"
	"strings"
)

type Kind int

const (
	KBool Kind = iota
	KBV
	KFP
	KStr
	KInt // mathematical integers (only inside string-theory terms)
)

type Term struct {
	K       Kind
	W       int // bv width / fp width (32|64)
	Op      string
	Args    []*Term
	IsConst bool
	BV      uint64
	B       bool
	S       string
	Name    string
	Max     int64 // known unsigned upper bound (BV) / known upper bound of str.len (Str); -1 unknown
	id      int
}

var (
	termTab  = map[string]*Term{}
	termList []*Term
	// strTheory selects the representation of Go strings: false = atoms of an
	// uninterpreted sort (level G), true = SMT String theory (level K).
	strTheory bool
)

func intern(t *Term) *Term {
	var sb strings.Builder
	fmt.Fprintf(&sb, "%d|%d|%s|%v|%d|%v|%q|%s", t.K, t.W, t.Op, t.IsConst, t.BV, t.B, t.S, t.Name)
	for _, a := range t.Args {
		sb.WriteByte(',')
		sb.WriteString(strconv.Itoa(a.id))
	}
	k := sb.String()
	if o, ok := termTab[k]; ok {
		return o
	}
	t.id = len(termList)
	termTab[k] = t
	termList = append(termList, t)
	return t
}

var TrueT = intern(&Term{K: KBool, IsConst: true, B: true, Max: -1})
var FalseT = intern(&Term{K: KBool, IsConst: true, B: false, Max: -1})

func BoolC(b bool) *Term {
	if b {
		return TrueT
	}
	return FalseT
}
func mask(w int) uint64 {
	if w >= 64 {
		return ^uint64(0)
	}
	return (uint64(1) << uint(w)) - 1
}
func BVC(w int, v uint64) *Term {
	v &= mask(w)
	m := int64(-1)
	if v <= math.MaxInt64 {
		m = int64(v)
	}
	return intern(&Term{K: KBV, W: w, IsConst: true, BV: v, Max: m})
}
func IntC(v int64) *Term {
	return intern(&Term{K: KInt, IsConst: true, BV: uint64(v), Max: -1})
}
func FPBits(w int, bits uint64) *Term {
	return intern(&Term{K: KFP, W: w, IsConst: true, BV: bits, Max: -1})
}
func FPC(w int, f float64) *Term {
	if w == 32 {
		return FPBits(32, uint64(math.Float32bits(float32(f))))
	}
	return FPBits(64, math.Float64bits(f))
}
func StrC(s string) *Term {
	if strTheory {
		if len(s) > 250 {
			panic(unsupported("string constant longer than 250 bytes at level K"))
		}
		return intern(&Term{K: KStr, W: 8 * (len(s) + 1), IsConst: true, S: s, Max: int64(len(s))})
	}
	return intern(&Term{K: KStr, IsConst: true, S: s, Max: int64(len(s))})
}
func Var(name string, k Kind, w int) *Term {
	return intern(&Term{K: k, W: w, Op: "var", Name: name, Max: -1})
}
func mk(k Kind, w int, op string, args ...*Term) *Term {
	return intern(&Term{K: k, W: w, Op: op, Args: args, Max: -1})
}

func Not(a *Term) *Term {
	if a.IsConst {
		return BoolC(!a.B)
	}
	if a.Op == "not" {
		return a.Args[0]
	}
	return mk(KBool, 0, "not", a)
}

func And(xs ...*Term) *Term {
	var out []*Term
	seen := map[int]bool{}
	for _, x := range xs {
		if x.IsConst {
			if !x.B {
				return FalseT
			}
			continue
		}
		if x.Op == "and" {
			for _, y := range x.Args {
				if !seen[y.id] {
					seen[y.id] = true
					out = append(out, y)
				}
			}
			continue
		}
		if !seen[x.id] {
			seen[x.id] = true
			out = append(out, x)
		}
	}
	for _, x := range out {
		if x.Op == "not" && seen[x.Args[0].id] {
			return FalseT
		}
		if x.Op == "not" && x.Args[0].Op == "and" {
			all := true
			for _, y := range x.Args[0].Args {
				if !seen[y.id] {
					all = false
					break
				}
			}
			if all {
				return FalseT
			}
		}
	}
	// absorb: drop not(and(...)) conjuncts one of whose members is negated in the set
	if len(out) > 1 {
		kept := out[:0:0]
		for _, x := range out {
			drop := false
			if x.Op == "not" && x.Args[0].Op == "and" {
				for _, y := range x.Args[0].Args {
					if y.Op == "not" && seen[y.Args[0].id] {
						drop = true
						break
					}
					if ny := lookupNot(y); ny != nil && seen[ny.id] {
						drop = true
						break
					}
				}
			}
			if !drop {
				kept = append(kept, x)
			}
		}
		out = kept
	}
	if len(out) == 0 {
		return TrueT
	}
	if len(out) == 1 {
		return out[0]
	}
	sort.Slice(out, func(i, j int) bool { return out[i].id < out[j].id })
	return mk(KBool, 0, "and", out...)
}

// lookupNot returns the interned negation of y if it already exists.
func lookupNot(y *Term) *Term {
	if y.Op == "not" {
		return y.Args[0]
	}
	k := fmt.Sprintf("%d|%d|%s|%v|%d|%v|%q|%s,%d", KBool, 0, "not", false, 0, false, "", "", y.id)
	if o, ok := termTab[k]; ok {
		return o
	}
	return nil
}

func Or(xs ...*Term) *Term {
	ns := make([]*Term, len(xs))
	for i, x := range xs {
		ns[i] = Not(x)
	}
	return Not(And(ns...))
}
func Implies(a, b *Term) *Term { return Or(Not(a), b) }

func Ite(c, a, b *Term) *Term {
	if c.IsConst {
		if c.B {
			return a
		}
		return b
	}
	if a == b {
		return a
	}
	if a.K == KStr && b.K == KStr && a.W != b.W {
		c2 := sCap(a)
		if sCap(b) > c2 {
			c2 = sCap(b)
		}
		a, b = sPad(a, c2), sPad(b, c2)
		if a == b {
			return a
		}
	}
	if a.K != b.K || (a.K == KBV && a.W != b.W) {
		panic(fmt.Sprintf("Ite: sort mismatch %v/%d vs %v/%d", a.K, a.W, b.K, b.W))
	}
	if a.K == KBool {
		if a.IsConst && b.IsConst {
			if a.B {
				return c
			}
			return Not(c)
		}
		if a.IsConst {
			if a.B {
				return Or(c, b)
			}
			return And(Not(c), b)
		}
		if b.IsConst {
			if b.B {
				return Or(Not(c), a)
			}
			return And(c, a)
		}
	}
	// ite(c, x, ite(c, _, y)) = ite(c, x, y)
	if b.Op == "ite" && b.Args[0] == c {
		b = b.Args[2]
		if a == b {
			return a
		}
	}
	if a.Op == "ite" && a.Args[0] == c {
		a = a.Args[1]
		if a == b {
			return a
		}
	}
	if c.Op == "not" {
		return Ite(c.Args[0], b, a)
	}
	t := mk(a.K, a.W, "ite", c, a, b)
	if a.Max >= 0 && b.Max >= 0 {
		if a.Max > b.Max {
			t.Max = a.Max
		} else {
			t.Max = b.Max
		}
	}
	return t
}

func Eq(a, b *Term) *Term {
	if a.K != b.K {
		panic(fmt.Sprintf("Eq: kind mismatch %v vs %v", a.K, b.K))
	}
	if a == b && a.K != KFP {
		return TrueT
	}
	if a.IsConst && b.IsConst && a.K != KFP {
		switch a.K {
		case KBool:
			return BoolC(a.B == b.B)
		case KBV, KInt:
			return BoolC(a.BV == b.BV)
		case KStr:
			return BoolC(a.S == b.S)
		}
	}
	if a.K == KStr && a.W != b.W {
		if a.IsConst && len(a.S) > sCap(b) || b.IsConst && len(b.S) > sCap(a) {
			return FalseT
		}
		c2 := sCap(a)
		if sCap(b) > c2 {
			c2 = sCap(b)
		}
		a, b = sPad(a, c2), sPad(b, c2)
	}
	if a.K == KBool {
		if a.IsConst {
			if a.B {
				return b
			}
			return Not(b)
		}
		if b.IsConst {
			if b.B {
				return a
			}
			return Not(a)
		}
	}
	if a.K == KFP {
		if a.IsConst && b.IsConst {
			return BoolC(fpVal(a) == fpVal(b))
		}
		return mk(KBool, 0, "fp.eq", a, b)
	}
	// push equality with a constant through ite: (ite c x y) = k
	if b.IsConst && a.Op == "ite" {
		a, b = b, a
	}
	if a.IsConst && b.Op == "ite" && (b.Args[1].IsConst || b.Args[2].IsConst) {
		return Ite(b.Args[0], Eq(a, b.Args[1]), Eq(a, b.Args[2]))
	}
	if a.K == KBV && a.Max >= 0 && b.Max >= 0 {
		if a.IsConst && a.Max > b.Max || b.IsConst && b.Max > a.Max {
			return FalseT
		}
	}
	if a.id > b.id {
		a, b = b, a
	}
	return mk(KBool, 0, "=", a, b)
}

func fpVal(t *Term) float64 {
	if t.W == 32 {
		return float64(math.Float32frombits(uint32(t.BV)))
	}
	return math.Float64frombits(t.BV)
}

func sext(v uint64, w int) int64 {
	if w >= 64 {
		return int64(v)
	}
	sh := uint(64 - w)
	return int64(v<<sh) >> sh
}

// BVBin handles arithmetic and comparisons on bit-vectors.
func BVBin(op string, a, b *Term, signed bool) *Term {
	w := a.W
	if a.K != KBV || b.K != KBV || a.W != b.W {
		panic(fmt.Sprintf("BVBin %s: operand mismatch %v/%d %v/%d", op, a.K, a.W, b.K, b.W))
	}
	if a.IsConst && b.IsConst {
		x, y := a.BV, b.BV
		sx, sy := sext(x, w), sext(y, w)
		switch op {
		case "+":
			return BVC(w, x+y)
		case "-":
			return BVC(w, x-y)
		case "*":
			return BVC(w, x*y)
		case "&":
			return BVC(w, x&y)
		case "|":
			return BVC(w, x|y)
		case "^":
			return BVC(w, x^y)
		case "&^":
			return BVC(w, x&^y)
		case "<<":
			if y >= uint64(w) {
				return BVC(w, 0)
			}
			return BVC(w, x<<y)
		case ">>":
			if signed {
				if y >= uint64(w) {
					y = uint64(w - 1)
				}
				return BVC(w, uint64(sx>>y))
			}
			if y >= uint64(w) {
				return BVC(w, 0)
			}
			return BVC(w, x>>y)
		case "/":
			if y != 0 {
				if signed {
					return BVC(w, uint64(sx/sy))
				}
				return BVC(w, x/y)
			}
		case "%":
			if y != 0 {
				if signed {
					return BVC(w, uint64(sx%sy))
				}
				return BVC(w, x%y)
			}
		case "<":
			if signed {
				return BoolC(sx < sy)
			}
			return BoolC(x < y)
		case "<=":
			if signed {
				return BoolC(sx <= sy)
			}
			return BoolC(x <= y)
		case ">":
			if signed {
				return BoolC(sx > sy)
			}
			return BoolC(x > y)
		case ">=":
			if signed {
				return BoolC(sx >= sy)
			}
			return BoolC(x >= y)
		}
	}
	switch op {
	case ">":
		return BVBin("<", b, a, signed)
	case ">=":
		return BVBin("<=", b, a, signed)
	}
	// bound-based folding (both operands known non-negative and small)
	if os.Getenv("NOFOLD") == "" && a.Max >= 0 && b.Max >= 0 {
		switch op {
		case "<": // a < b
			if a.IsConst && a.Max >= b.Max {
				return FalseT
			}
			if b.IsConst && b.BV == 0 {
				return FalseT
			}
			if b.IsConst && a.Max < b.Max {
				return TrueT
			}
		case "<=":
			if b.IsConst && b.Max >= a.Max {
				return TrueT
			}
			if a.IsConst && a.BV == 0 {
				return TrueT
			}
			if a.IsConst && a.Max > b.Max {
				return FalseT
			}
		}
	}
	switch op {
	case "+":
		if a.IsConst && a.BV == 0 {
			return b
		}
		if b.IsConst && b.BV == 0 {
			return a
		}
		if a.IsConst && !b.IsConst {
			a, b = b, a
		}
		t := mk(KBV, w, "bvadd", a, b)
		if a.Max >= 0 && b.Max >= 0 && a.Max+b.Max >= 0 {
			t.Max = a.Max + b.Max
		}
		return t
	case "-":
		if b.IsConst && b.BV == 0 {
			return a
		}
		t := mk(KBV, w, "bvsub", a, b)
		return t
	case "*":
		return mk(KBV, w, "bvmul", a, b)
	case "&":
		t := mk(KBV, w, "bvand", a, b)
		if a.Max >= 0 {
			t.Max = a.Max
		}
		if b.Max >= 0 && (t.Max < 0 || b.Max < t.Max) {
			t.Max = b.Max
		}
		return t
	case "|":
		return mk(KBV, w, "bvor", a, b)
	case "^":
		return mk(KBV, w, "bvxor", a, b)
	case "&^":
		return mk(KBV, w, "bvand", a, mk(KBV, w, "bvnot", b))
	case "<<":
		return mk(KBV, w, "bvshl", a, b)
	case ">>":
		if signed {
			return mk(KBV, w, "bvashr", a, b)
		}
		return mk(KBV, w, "bvlshr", a, b)
	case "/":
		if signed {
			return mk(KBV, w, "bvsdiv", a, b)
		}
		return mk(KBV, w, "bvudiv", a, b)
	case "%":
		if signed {
			return mk(KBV, w, "bvsrem", a, b)
		}
		return mk(KBV, w, "bvurem", a, b)
	case "<":
		if signed {
			return mk(KBool, 0, "bvslt", a, b)
		}
		return mk(KBool, 0, "bvult", a, b)
	case "<=":
		if signed {
			return mk(KBool, 0, "bvsle", a, b)
		}
		return mk(KBool, 0, "bvule", a, b)
	}
	panic("BVBin op " + op)
}

func BVConv(a *Term, from, to int, signed bool) *Term {
	if from == to {
		return a
	}
	if a.IsConst {
		if to < from {
			return BVC(to, a.BV)
		}
		if signed {
			return BVC(to, uint64(sext(a.BV, from)))
		}
		return BVC(to, a.BV)
	}
	if to < from {
		t := mk(KBV, to, fmt.Sprintf("(_ extract %d 0)", to-1), a)
		if a.Max >= 0 && (to >= 63 || a.Max < int64(1)<<uint(to)) {
			t.Max = a.Max
		}
		return t
	}
	op := "zero_extend"
	if signed {
		op = "sign_extend"
	}
	t := mk(KBV, to, fmt.Sprintf("(_ %s %d)", op, to-from), a)
	if a.Max >= 0 && (!signed || a.Max < int64(1)<<uint(from-1)) {
		t.Max = a.Max
	}
	return t
}

func FPConv(a *Term, to int) *Term {
	if a.W == to {
		return a
	}
	if a.IsConst {
		return FPC(to, fpVal(a))
	}
	if to == 64 {
		return mk(KFP, 64, "(_ to_fp 11 53) RNE", a)
	}
	return mk(KFP, 32, "(_ to_fp 8 24) RNE", a)
}

// FPFromBV reinterprets a bit-vector as an IEEE float of the same width.
func FPFromBV(a *Term) *Term {
	if a.IsConst {
		return FPBits(a.W, a.BV)
	}
	if a.W == 32 {
		return mk(KFP, 32, "(_ to_fp 8 24)", a)
	}
	return mk(KFP, 64, "(_ to_fp 11 53)", a)
}

func FPBin(op string, a, b *Term) *Term {
	if a.IsConst && b.IsConst {
		x, y := fpVal(a), fpVal(b)
		switch op {
		case "<":
			return BoolC(x < y)
		case "<=":
			return BoolC(x <= y)
		case ">":
			return BoolC(x > y)
		case ">=":
			return BoolC(x >= y)
		}
	}
	switch op {
	case "<":
		return mk(KBool, 0, "fp.lt", a, b)
	case "<=":
		return mk(KBool, 0, "fp.leq", a, b)
	case ">":
		return mk(KBool, 0, "fp.gt", a, b)
	case ">=":
		return mk(KBool, 0, "fp.geq", a, b)
	case "+":
		return mk(KFP, a.W, "fp.add RNE", a, b)
	case "-":
		return mk(KFP, a.W, "fp.sub RNE", a, b)
	case "*":
		return mk(KFP, a.W, "fp.mul RNE", a, b)
	case "/":
		return mk(KFP, a.W, "fp.div RNE", a, b)
	}
	panic("FPBin " + op)
}

// ---------- strings (theory mode) ----------

func StrLen(s *Term) *Term { // Int
	if s.IsConst {
		return IntC(int64(len(s.S)))
	}
	return mk(KInt, 0, "str.len", s)
}
func StrConcat(a, b *Term) *Term {
	if a.IsConst && b.IsConst {
		return StrC(a.S + b.S)
	}
	if a.IsConst && a.S == "" {
		return b
	}
	if b.IsConst && b.S == "" {
		return a
	}
	if !strTheory {
		panic(unsupported("string concatenation of symbolic atoms"))
	}
	return sConcat(a, b)
}
func IntBin(op string, a, b *Term) *Term {
	if a.IsConst && b.IsConst {
		x, y := int64(a.BV), int64(b.BV)
		switch op {
		case "+":
			return IntC(x + y)
		case "-":
			return IntC(x - y)
		case "<":
			return BoolC(x < y)
		case "<=":
			return BoolC(x <= y)
		}
	}
	switch op {
	case "+", "-":
		return mk(KInt, 0, op, a, b)
	case "<", "<=":
		return mk(KBool, 0, op, a, b)
	}
	panic("IntBin " + op)
}

// Int2BV converts a non-negative Int to a 64-bit vector.
func Int2BV(a *Term) *Term {
	if a.IsConst {
		return BVC(64, a.BV)
	}
	return mk(KBV, 64, "(_ int2bv 64)", a)
}
func BV2Int(a *Term) *Term {
	if a.IsConst {
		return IntC(int64(a.BV))
	}
	return mk(KInt, 0, "bv2nat", a)
}

// ---------- SMT emission ----------

func sortOf(t *Term) string {
	switch t.K {
	case KBool:
		return "Bool"
	case KBV:
		return fmt.Sprintf("(_ BitVec %d)", t.W)
	case KFP:
		if t.W == 32 {
			return "(_ FloatingPoint 8 24)"
		}
		return "(_ FloatingPoint 11 53)"
	case KStr:
		if t.W > 0 {
			return fmt.Sprintf("(_ BitVec %d)", t.W)
		}
		return "Str"
	case KInt:
		return "Int"
	}
	panic("sort")
}

type Emitter struct {
	sb   strings.Builder
	ufs  map[string]bool
	done map[int]bool
	lits []*Term // string literal atoms declared (atom mode)
	vars []*Term
}

func NewEmitter() *Emitter {
	e := &Emitter{done: map[int]bool{}, ufs: map[string]bool{}}
	if !strTheory {
		e.sb.WriteString("(declare-sort Str 0)\n")
	}
	return e
}

func smtString(s string) string {
	var sb strings.Builder
	sb.WriteByte('"')
	for _, r := range []byte(s) {
		switch {
		case r == '"':
			sb.WriteString(`""`)
		case r >= 32 && r < 127 && r != '\\':
			sb.WriteByte(r)
		default:
			fmt.Fprintf(&sb, `\u{%x}`, r)
		}
	}
	sb.WriteByte('"')
	return sb.String()
}

func (e *Emitter) ref(t *Term) string {
	if t.IsConst {
		switch t.K {
		case KBool:
			if t.B {
				return "true"
			}
			return "false"
		case KBV:
			return fmt.Sprintf("(_ bv%d %d)", t.BV, t.W)
		case KInt:
			if int64(t.BV) < 0 {
				return fmt.Sprintf("(- %d)", -int64(t.BV))
			}
			return fmt.Sprintf("%d", int64(t.BV))
		case KFP:
			if t.W == 32 {
				return fmt.Sprintf("((_ to_fp 8 24) #x%08x)", uint32(t.BV))
			}
			return fmt.Sprintf("((_ to_fp 11 53) #x%016x)", t.BV)
		case KStr:
			if t.W > 0 {
				h := strConstHex(t.S)
				pad := t.W/4 - (len(h) - 2)
				return "#x" + strings.Repeat("0", pad) + h[2:]
			}
			return fmt.Sprintf("slit%d", t.id)
		}
	}
	if t.Op == "var" || t.Op == "re" {
		return t.Name
	}
	return fmt.Sprintf("n%d", t.id)
}

func (e *Emitter) define(t *Term) {
	if e.done[t.id] {
		return
	}
	e.done[t.id] = true
	if t.IsConst {
		if t.K == KStr && t.W == 0 {
			fmt.Fprintf(&e.sb, "(declare-const slit%d Str)\n", t.id)
			e.lits = append(e.lits, t)
		}
		return
	}
	if t.Op == "var" {
		fmt.Fprintf(&e.sb, "(declare-const %s %s)\n", t.Name, sortOf(t))
		e.vars = append(e.vars, t)
		return
	}
	if t.Op == "re" {
		return
	}
	for _, a := range t.Args {
		e.define(a)
	}
	if t.Op == "strmk" {
		if len(t.Args) == 1 {
			fmt.Fprintf(&e.sb, "(define-fun n%d () %s %s)\n", t.id, sortOf(t), e.ref(t.Args[0]))
			return
		}
		parts := make([]string, len(t.Args))
		for i, a := range t.Args {
			parts[len(t.Args)-1-i] = e.ref(a)
		}
		fmt.Fprintf(&e.sb, "(define-fun n%d () %s (concat %s))\n", t.id, sortOf(t), strings.Join(parts, " "))
		return
	}
	if strings.HasPrefix(t.Op, "uf:") {
		fn := "uf_" + t.Op[3:]
		if !e.ufs[fn] {
			e.ufs[fn] = true
			var doms []string
			for _, a := range t.Args {
				doms = append(doms, sortOf(a))
			}
			fmt.Fprintf(&e.sb, "(declare-fun %s (%s) %s)\n", fn, strings.Join(doms, " "), sortOf(t))
		}
		args := make([]string, len(t.Args))
		for i, a := range t.Args {
			args[i] = e.ref(a)
		}
		fmt.Fprintf(&e.sb, "(define-fun n%d () %s (%s %s))\n", t.id, sortOf(t), fn, strings.Join(args, " "))
		return
	}
	args := make([]string, len(t.Args))
	for i, a := range t.Args {
		args[i] = e.ref(a)
	}
	fmt.Fprintf(&e.sb, "(define-fun n%d () %s (%s %s))\n", t.id, sortOf(t), t.Op, strings.Join(args, " "))
}

// prelude returns the accumulated declarations plus literal distinctness.
func (e *Emitter) prelude() string {
	s := e.sb.String()
	if len(e.lits) > 1 {
		names := make([]string, len(e.lits))
		for i, l := range e.lits {
			names[i] = e.ref(l)
		}
		s += "(assert (distinct " + strings.Join(names, " ") + "))\n"
	}
	return s
}

type unsupportedErr struct{ msg string }

func (u unsupportedErr) Error() string { return u.msg }
func unsupported(format string, a ...interface{}) unsupportedErr {
	return unsupportedErr{fmt.Sprintf(format, a...)}
}
