package main

// Level-K environment: string library over the SMT string theory, casing as
// uninterpreted functions, gogoproto option readers answered from the option
// record the harness built, gogo generator on a fixed universe, trace/logrus.

import (
	"fmt"
	"go/types"
	"strings"

	"golang.org/x/tools/go/ssa"
)

const wsChars = " \t\n\r\v\f"

func reOfSet(chars string) string {
	var parts []string
	for _, c := range []byte(chars) {
		parts = append(parts, "(str.to_re "+smtString(string(c))+")")
	}
	if len(parts) == 1 {
		return parts[0]
	}
	return "(re.union " + strings.Join(parts, " ") + ")"
}

// inSet: the one-character string x is a member of chars.
func inSet(x *Term, chars string) *Term {
	var ds []*Term
	for _, c := range []byte(chars) {
		ds = append(ds, Eq(x, StrC(string(c))))
	}
	return Or(ds...)
}

func (e *Engine) define(st *State, c *Term) { st.assumes = And(st.assumes, c) }

func (e *Engine) freshStr(st *State, prefix string, max int64) *Term {
	v := e.fresh(prefix, KStr, 0)
	if max >= 0 {
		v.Max = max
		e.define(st, IntBin("<=", StrLen(v), IntC(max)))
	}
	return v
}

func strMaxOf(s *Term, dflt int) int64 {
	if s.Max >= 0 {
		return s.Max
	}
	return int64(dflt * 4)
}

// strTrim models strings.Trim(s, cutset) / TrimSpace for a constant cutset.
func (e *Engine) strTrim(st *State, s *Term, cutset string, left, right bool) *Term {
	if s.IsConst {
		switch {
		case left && right:
			return StrC(strings.Trim(s.S, cutset))
		case left:
			return StrC(strings.TrimLeft(s.S, cutset))
		default:
			return StrC(strings.TrimRight(s.S, cutset))
		}
	}
	e.needTheory("strings.Trim")
	mx := strMaxOf(s, e.strMax)
	r := e.freshStr(st, "trim", mx)
	a, b := StrC(""), StrC("")
	if left {
		a = e.freshStr(st, "triml", mx)
		e.define(st, mk(KBool, 0, "str.in_re", a, reTerm("(re.* "+reOfSet(cutset)+")")))
	}
	if right {
		b = e.freshStr(st, "trimr", mx)
		e.define(st, mk(KBool, 0, "str.in_re", b, reTerm("(re.* "+reOfSet(cutset)+")")))
	}
	e.define(st, Eq(s, StrConcat(StrConcat(a, r), b)))
	var ends []*Term
	if left {
		ends = append(ends, Not(inSet(mk(KStr, 0, "str.at", r, IntC(0)), cutset)))
	}
	if right {
		ends = append(ends, Not(inSet(mk(KStr, 0, "str.at", r, IntBin("-", StrLen(r), IntC(1))), cutset)))
	}
	e.define(st, Or(Eq(r, StrC("")), And(ends...)))
	return r
}

// reTerm wraps a regular-expression literal so that it can be an argument of str.in_re.
func reTerm(src string) *Term {
	return intern(&Term{K: KInt, Op: "re", Name: src, Max: -1})
}

// strIndexBV: strings.Index as a signed 64-bit value.
func (e *Engine) strIndexBV(s, sub *Term) *Term {
	if s.IsConst && sub.IsConst {
		return BVC(64, uint64(int64(strings.Index(s.S, sub.S))))
	}
	e.needTheory("strings.Index")
	idx := strIndexOf(s, sub, IntC(0))
	return Ite(IntBin("<", idx, IntC(0)), BVC(64, ^uint64(0)), Int2BV(idx))
}

// strLastIndexBV: strings.LastIndex via a defined fresh index.
func (e *Engine) strLastIndexBV(st *State, s, sub *Term) *Term {
	if s.IsConst && sub.IsConst {
		return BVC(64, uint64(int64(strings.LastIndex(s.S, sub.S))))
	}
	e.needTheory("strings.LastIndex")
	i := e.fresh("lastidx", KInt, 0)
	none := And(Eq(i, IntC(-1)), Not(strContains(s, sub)))
	n := StrLen(sub)
	rest := substr(s, IntBin("+", i, IntC(1)), IntBin("-", StrLen(s), IntBin("+", i, IntC(1))))
	some := And(IntBin("<=", IntC(0), i), Eq(substr(s, i, n), sub), IntBin("<=", IntBin("+", i, n), StrLen(s)), Not(strContains(rest, sub)))
	e.define(st, Or(none, some))
	r := Ite(IntBin("<", i, IntC(0)), BVC(64, ^uint64(0)), Int2BV(i))
	return r
}

// strLastIndexAnyBV: strings.LastIndexAny(s, chars) for constant chars.
func (e *Engine) strLastIndexAnyBV(st *State, s *Term, chars string) *Term {
	if s.IsConst {
		return BVC(64, uint64(int64(strings.LastIndexAny(s.S, chars))))
	}
	e.needTheory("strings.LastIndexAny")
	i := e.fresh("lastany", KInt, 0)
	notSet := reTerm("(re.* (re.diff re.allchar " + reOfSet(chars) + "))")
	none := And(Eq(i, IntC(-1)), mk(KBool, 0, "str.in_re", s, notSet))
	rest := substr(s, IntBin("+", i, IntC(1)), IntBin("-", StrLen(s), IntBin("+", i, IntC(1))))
	some := And(IntBin("<=", IntC(0), i), IntBin("<", i, StrLen(s)), inSet(mk(KStr, 0, "str.at", s, i), chars), mk(KBool, 0, "str.in_re", rest, notSet))
	e.define(st, Or(none, some))
	return Ite(IntBin("<", i, IntC(0)), BVC(64, ^uint64(0)), Int2BV(i))
}

// strSplit models strings.Split(s, sep) for a constant, non-empty sep with at most e.splitMax parts.
func (e *Engine) strSplit(st *State, t types.Type, s *Term, sep string) Value {
	et := types.Typ[types.String]
	mkSlice := func(parts []Value, ln *Term) Value {
		arr := &ArrayV{F: parts}
		o := newObj(types.NewArray(et, int64(len(parts))))
		st.heap[o] = arr
		return &SliceV{Nil: FalseT, Len: ln, Arr: o, Max: len(parts)}
	}
	if s.IsConst {
		ps := strings.Split(s.S, sep)
		var vs []Value
		for _, p := range ps {
			vs = append(vs, StrC(p))
		}
		return mkSlice(vs, BVC(64, uint64(len(vs))))
	}
	e.needTheory("strings.Split")
	n := e.splitMax
	parts := make([]Value, n)
	rest := s
	ln := BVC(64, 0)
	done := FalseT // a previous part was the last one
	sepT := StrC(sep)
	for k := 0; k < n; k++ {
		idx := strIndexOf(rest, sepT, IntC(0))
		last := IntBin("<", idx, IntC(0))
		part := Ite(last, rest, substr(rest, IntC(0), idx))
		part.Max = strMaxOf(s, e.strMax)
		parts[k] = Ite(done, StrC(""), part)
		ln = Ite(done, ln, BVC(64, uint64(k+1)))
		nrest := substr(rest, IntBin("+", idx, IntC(int64(len(sep)))), StrLen(rest))
		nrest.Max = strMaxOf(s, e.strMax)
		if k == n-1 {
			// stated bound: at most n parts
			e.define(st, Or(done, last))
			e.bounds["strings.Split yields at most "+fmt.Sprint(n)+" parts"] = true
		}
		done = Or(done, last)
		rest = nrest
	}
	ln.Max = int64(n)
	return mkSlice(parts, ln)
}

// strJoin models strings.Join(parts, sep).
func (e *Engine) strJoin(st *State, sl *SliceV, sep *Term) *Term {
	cells := sliceCells(st, sl)
	r := StrC("")
	for i := 0; i < sl.Max && i < len(cells); i++ {
		p := cells[i].(*Term)
		var nx *Term
		if i == 0 {
			nx = p
		} else {
			nx = StrConcat(StrConcat(r, sep), p)
		}
		r = Ite(BVBin("<", BVC(64, uint64(i)), sl.Len, true), nx, r)
	}
	return r
}

// strReplaceAll models strings.ReplaceAll for constant, non-empty old (bounded number of occurrences).
func (e *Engine) strReplaceAll(st *State, s *Term, old, nw string) *Term {
	if s.IsConst {
		return StrC(strings.ReplaceAll(s.S, old, nw))
	}
	e.needTheory("strings.ReplaceAll")
	n := int(strMaxOf(s, e.strMax))/len(old) + 1
	out := StrC("")
	rest := s
	done := FalseT
	oldT, nwT := StrC(old), StrC(nw)
	for k := 0; k < n; k++ {
		idx := strIndexOf(rest, oldT, IntC(0))
		last := IntBin("<", idx, IntC(0))
		piece := Ite(last, rest, StrConcat(substr(rest, IntC(0), idx), nwT))
		out = Ite(done, out, StrConcat(out, piece))
		rest = substr(rest, IntBin("+", idx, IntC(int64(len(old)))), StrLen(rest))
		done = Or(done, last)
	}
	out = Ite(done, out, StrConcat(out, rest))
	out.Max = strMaxOf(s, e.strMax) * int64(len(nw)+1)
	return out
}

func lowerChar(x *Term) *Term {
	c := mk(KInt, 0, "str.to_code", x)
	up := And(IntBin("<=", IntC(65), c), IntBin("<=", c, IntC(90)))
	return Ite(up, mk(KStr, 0, "str.from_code", IntBin("+", c, IntC(32))), x)
}

func (e *Engine) strToLower(s *Term) *Term {
	if s.IsConst {
		return StrC(strings.ToLower(s.S))
	}
	e.needTheory("strings.ToLower")
	n := int(strMaxOf(s, e.strMax))
	r := StrC("")
	for i := 0; i < n; i++ {
		r = StrConcat(r, lowerChar(mk(KStr, 0, "str.at", s, IntC(int64(i)))))
	}
	r.Max = int64(n)
	return r
}

// UF application (strcase): the same function symbol on both sides of an oracle.
func (e *Engine) ufStr(name string, arg *Term) *Term {
	t := mk(KStr, 0, "uf:"+name, arg)
	if arg.Max >= 0 {
		t.Max = arg.Max * 2
	}
	return t
}

func (e *Engine) opaqueError(st *State, what string) Value {
	return e.newError(st, StrC(what))
}

// optsOf finds the option record the harness attached to a field's Options.
func (e *Engine) optsOf(st *State, field Value) (*StructV, *Term) {
	fp, ok := field.(*PtrV)
	if !ok {
		panic(unsupported("gogoproto reader: field is %T", field))
	}
	// field.Options
	var res *StructV
	has := FalseT
	for _, a := range fp.Alts {
		if a.O == nil {
			continue
		}
		cell, _ := e.cell(st, a.O)
		fs := getPath(cell, a.Path).(*StructV)
		stt := fs.T.Underlying().(*types.Struct)
		for i := 0; i < stt.NumFields(); i++ {
			if stt.Field(i).Name() != "Options" {
				continue
			}
			op := fs.F[i].(*PtrV)
			for _, oa := range op.Alts {
				if oa.O == nil {
					continue
				}
				rec, ok := e.optRecs[oa.O]
				if !ok {
					panic(unsupported("FieldOptions that were not built with vrtFieldOptions"))
				}
				if res != nil && res != rec {
					panic(unsupported("ambiguous FieldOptions"))
				}
				res = rec
				has = Or(has, And(a.G, oa.G))
			}
		}
	}
	return res, has
}

func recField(rec *StructV, name string) Value {
	stt := rec.T.Underlying().(*types.Struct)
	for i := 0; i < stt.NumFields(); i++ {
		if stt.Field(i).Name() == name {
			return rec.F[i]
		}
	}
	panic(unsupported("vrtOpts has no field %s", name))
}

func (e *Engine) kIntrinsic(fn *ssa.Function, name string, args []Value, st *State) (Value, *State, bool) {
	str := func(i int) *Term { return args[i].(*Term) }
	cst := func(i int, what string) string { return constStr(args[i], what) }
	switch name {
	case "strings.Contains":
		return strContains(str(0), str(1)), st, true
	case "strings.HasPrefix":
		return strPrefixOf(str(1), str(0)), st, true
	case "strings.HasSuffix":
		return strSuffixOf(str(1), str(0)), st, true
	case "strings.Index":
		return e.strIndexBV(str(0), str(1)), st, true
	case "strings.LastIndex":
		return e.strLastIndexBV(st, str(0), str(1)), st, true
	case "strings.LastIndexAny":
		return e.strLastIndexAnyBV(st, str(0), cst(1, "LastIndexAny chars")), st, true
	case "strings.TrimSpace":
		return e.strTrim(st, str(0), wsChars, true, true), st, true
	case "strings.Trim":
		return e.strTrim(st, str(0), cst(1, "Trim cutset"), true, true), st, true
	case "strings.TrimPrefix":
		s, p := str(0), str(1)
		if s.IsConst && p.IsConst {
			return StrC(strings.TrimPrefix(s.S, p.S)), st, true
		}
		r := Ite(strPrefixOf(p, s), substr(s, StrLen(p), StrLen(s)), s)
		r.Max = strMaxOf(s, e.strMax)
		return r, st, true
	case "strings.Split":
		return e.strSplit(st, fn.Signature.Results().At(0).Type(), str(0), cst(1, "Split separator")), st, true
	case "strings.Join":
		return e.strJoin(st, args[0].(*SliceV), str(1)), st, true
	case "strings.ReplaceAll":
		return e.strReplaceAll(st, str(0), cst(1, "ReplaceAll old"), cst(2, "ReplaceAll new")), st, true
	case "strings.Replace":
		n := args[3].(*Term)
		if n.IsConst && int64(n.BV) < 0 {
			return e.strReplaceAll(st, str(0), cst(1, "Replace old"), cst(2, "Replace new")), st, true
		}
		if n.IsConst && n.BV == 1 {
			return strReplace(str(0), str(1), str(2)), st, true
		}
		panic(unsupported("strings.Replace with n=%v", describe(n)))
	case "strings.ToLower":
		return e.strToLower(str(0)), st, true
	case "strconv.Itoa":
		t := str(0)
		if t.IsConst {
			return StrC(fmt.Sprint(sext(t.BV, 64))), st, true
		}
		e.needTheory("strconv.Itoa")
		return mk(KStr, 0, "int.to.str", BV2Int(t)), st, true
	case "strconv.ParseBool":
		s := str(0)
		tv := Or(Eq(s, StrC("1")), Eq(s, StrC("t")), Eq(s, StrC("T")), Eq(s, StrC("TRUE")), Eq(s, StrC("true")), Eq(s, StrC("True")))
		fv := Or(Eq(s, StrC("0")), Eq(s, StrC("f")), Eq(s, StrC("F")), Eq(s, StrC("FALSE")), Eq(s, StrC("false")), Eq(s, StrC("False")))
		bad := And(Not(tv), Not(fv))
		errV := mergeV(st, bad, e.opaqueError(st, "strconv.ParseBool: invalid syntax"), zero(fn.Signature.Results().At(1).Type()))
		return &TupleV{F: []Value{tv, errV}}, st, true
	case "github.com/stoewer/go-strcase.SnakeCase":
		return e.ufStr("snake", str(0)), st, true
	case "github.com/stoewer/go-strcase.UpperCamelCase":
		return e.ufStr("ucamel", str(0)), st, true
	case "github.com/gravitational/trace.Wrap":
		// Wrap(nil) = nil; Wrap(err) is an error again: the original is returned
		return args[0], st, true
	case "github.com/gravitational/trace.Errorf", "github.com/gravitational/trace.BadParameter":
		return e.opaqueError(st, "trace error"), st, true
	case "sort.Slice":
		return nil, e.sortSlice(args[0], args[1], st), true
	}
	if strings.HasPrefix(name, "github.com/sirupsen/logrus.") || strings.HasPrefix(name, "(*github.com/sirupsen/logrus.") {
		e.events = append(e.events, Event{Name: "log:" + fn.Name(), G: e.reach(st)})
		res := fn.Signature.Results()
		switch res.Len() {
		case 0:
			return nil, st, true
		case 1:
			// WithError / WithField return an *Entry: an opaque non-nil pointer
			if _, ok := res.At(0).Type().Underlying().(*types.Pointer); ok {
				o := newObj(res.At(0).Type().Underlying().(*types.Pointer).Elem())
				st.heap[o] = &OpaqueV{Name: "logrus.Entry"}
				return &PtrV{Alts: []PAlt{{G: TrueT, O: o}}}, st, true
			}
		}
	}
	if strings.HasPrefix(name, "github.com/gogo/protobuf/gogoproto.") {
		return e.gogoOption(fn, strings.TrimPrefix(name, "github.com/gogo/protobuf/gogoproto."), args, st)
	}
	if v, st2, ok := e.genStub(fn, name, args, st); ok {
		return v, st2, true
	}
	return nil, st, false
}

// gogoOption answers a gogoproto reader from the vrtOpts record of the field.
func (e *Engine) gogoOption(fn *ssa.Function, short string, args []Value, st *State) (Value, *State, bool) {
	boolOpt := map[string]string{"IsEmbed": "Embed", "IsStdTime": "StdTime", "IsStdDuration": "StdDuration"}
	strOpt := map[string]string{"GetCastType": "CastType", "GetCustomType": "CustomType"}
	isOpt := map[string]string{"IsCastType": "CastType", "IsCustomType": "CustomType"}
	absent := map[string]bool{"IsStdDouble": true, "IsStdFloat": true, "IsStdInt64": true, "IsStdUInt64": true, "IsStdInt32": true,
		"IsStdUInt32": true, "IsStdBool": true, "IsStdString": true, "IsStdBytes": true, "IsWktPtr": true}
	if absent[short] {
		e.bounds["wktpointer std wrappers absent (outside D)"] = true
		return FalseT, st, true
	}
	rec, has := e.optsOf(st, args[0])
	get := func(field string, dflt Value) Value {
		if rec == nil {
			return dflt
		}
		return mergeV(st, has, recField(rec, field), dflt)
	}
	if f, ok := boolOpt[short]; ok {
		return get(f, FalseT), st, true
	}
	if f, ok := strOpt[short]; ok {
		return get(f, StrC("")), st, true
	}
	if f, ok := isOpt[short]; ok {
		return Not(Eq(get(f, StrC("")).(*Term), StrC(""))), st, true
	}
	switch short {
	case "IsNullable":
		hasN := get("HasNullable", FalseT).(*Term)
		return Or(Not(hasN), get("Nullable", TrueT).(*Term)), st, true
	case "GetJsonTag":
		// *string: nil when the option is absent
		hasT := get("HasJSONTag", FalseT).(*Term)
		o := newObj(types.Typ[types.String])
		st.heap[o] = get("JSONTag", StrC(""))
		return &PtrV{Alts: []PAlt{{G: hasT, O: o}, {G: Not(hasT)}}}, st, true
	}
	return nil, st, false
}

// sortSlice: an insertion sort that calls the real less closure symbolically.
func (e *Engine) sortSlice(x Value, less Value, st *State) *State {
	iv, ok := x.(*IfaceV)
	if !ok || len(iv.Alts) != 1 {
		panic(unsupported("sort.Slice on %T", x))
	}
	sl, ok := iv.Alts[0].V.(*SliceV)
	if !ok {
		panic(unsupported("sort.Slice on non-slice"))
	}
	fv := less.(*FuncV)
	if !sl.Len.IsConst {
		panic(unsupported("sort.Slice on a slice of symbolic length (harness: use a fixed length)"))
	}
	n := int(sl.Len.BV)
	if n < 2 {
		return st
	}
	arr := st.heap[sl.Arr].(*ArrayV)
	swap := func(st *State, i, j int, c *Term) {
		a := st.heap[sl.Arr].(*ArrayV)
		na := &ArrayV{F: append([]Value(nil), a.F...)}
		vi, vj := a.F[sl.Off+i], a.F[sl.Off+j]
		na.F[sl.Off+i] = mergeV(st, c, vj, vi)
		na.F[sl.Off+j] = mergeV(st, c, vi, vj)
		st.heap[sl.Arr] = na
	}
	_ = arr
	// bubble passes with the comparator evaluated on the current contents
	for pass := 0; pass < n-1; pass++ {
		for j := 0; j < n-1-pass; j++ {
			var r Value
			r, st = e.call(fv.Fn, []Value{BVC(64, uint64(j+1)), BVC(64, uint64(j))}, fv.Binds, st)
			swap(st, j, j+1, r.(*Term))
		}
	}
	e.stubs["sort.Slice (bubble sort calling the real less)"]++
	return st
}

// Fixed universe of the generator stub (mirrored natively by vrtGenerator in zz_verif_rt.go).
const (
	uniMsg     = ".p.Msg"
	uniMapStr  = ".p.T.MEntry" // map<string, string>
	uniMapInt  = ".p.T.IEntry" // map<int32, string>
	uniTime    = ".google.protobuf.Timestamp"
	uniDur     = ".google.protobuf.Duration"
	typeMsgNum = 11
	labelRep   = 3
)

// fieldScalars reads Type, Label and TypeName of a *FieldDescriptorProto.
func (e *Engine) fieldScalars(st *State, field Value) (typ, label *Term, typeName *Term, hasTN *Term) {
	fp := field.(*PtrV)
	if len(fp.Alts) != 1 || fp.Alts[0].O == nil {
		panic(unsupported("generator stub: ambiguous field pointer"))
	}
	cell, _ := e.cell(st, fp.Alts[0].O)
	fs := getPath(cell, fp.Alts[0].Path).(*StructV)
	stt := fs.T.Underlying().(*types.Struct)
	deref := func(v Value, t types.Type) (Value, *Term) {
		p := v.(*PtrV)
		var res Value = zero(t)
		has := FalseT
		for _, a := range p.Alts {
			if a.O == nil {
				continue
			}
			c, _ := e.cell(st, a.O)
			res = mergeV(st, a.G, getPath(c, a.Path), res)
			has = Or(has, a.G)
		}
		return res, has
	}
	for i := 0; i < stt.NumFields(); i++ {
		ft := stt.Field(i).Type()
		switch stt.Field(i).Name() {
		case "Type":
			v, _ := deref(fs.F[i], ft.(*types.Pointer).Elem())
			typ = v.(*Term)
		case "Label":
			v, _ := deref(fs.F[i], ft.(*types.Pointer).Elem())
			label = v.(*Term)
		case "TypeName":
			v, h := deref(fs.F[i], ft.(*types.Pointer).Elem())
			typeName, hasTN = v.(*Term), h
		}
	}
	return
}

func (e *Engine) genStub(fn *ssa.Function, name string, args []Value, st *State) (Value, *State, bool) {
	const gp = "(*github.com/gogo/protobuf/protoc-gen-gogo/generator.Generator)."
	if !strings.HasPrefix(name, gp) {
		return nil, st, false
	}
	switch strings.TrimPrefix(name, gp) {
	case "IsMap":
		typ, label, tn, has := e.fieldScalars(st, args[1])
		isEntry := And(has, Or(Eq(tn, StrC(uniMapStr)), Eq(tn, StrC(uniMapInt))))
		e.bounds["generator stub: fixed universe of type names {.p.Msg, .p.T.MEntry, .p.T.IEntry, Timestamp, Duration}"] = true
		return And(Eq(typ, BVC(32, typeMsgNum)), Eq(label, BVC(32, labelRep)), isEntry), st, true
	}
	return nil, st, false
}
