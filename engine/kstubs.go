package main

import "golang.org/x/tools/go/ssa"

// kIntrinsic holds the level-K environment stubs (filled in kstubs_*.go).
func (e *Engine) kIntrinsic(fn *ssa.Function, name string, args []Value, st *State) (Value, *State, bool) {
	return nil, st, false
}
