package main

// Level-K environment: string library over the SMT string theory, casing as
// uninterpreted functions, gogoproto option readers answered from the option
// record the harness built, gogo generator on a fixed universe, trace/logrus.

import (
	"fmt"
	"go/types"
	"strings"

	"golang.org/x/tools/go/ssa"
)

const wsChars = " \t\n\r\v\f"

func (e *Engine) define(st *State, c *Term) { st.assumes = And(st.assumes, c) }

// freshStr is an unconstrained (but well-formed) string of at most max bytes.
func (e *Engine) freshStr(st *State, prefix string, max int) *Term {
	if !strTheory {
		return e.fresh(prefix, KStr, 0)
	}
	e.nvar++
	v := intern(&Term{K: KStr, W: 8 * (max + 1), Op: "var", Name: fmt.Sprintf("%s%s_%d", e.prefix, prefix, e.nvar), Max: int64(max)})
	e.define(st, sWellFormed(v, max))
	return v
}

const ufCap = 24

// ufStr: casing functions as uninterpreted functions over bounded strings (same symbol on both
// sides of an oracle); results are assumed to be well-formed strings.
func (e *Engine) ufStr(st *State, name string, arg *Term) *Term {
	if !strTheory {
		return mk(KStr, 0, "uf:"+name, arg)
	}
	if sCap(arg) > ufCap {
		panic(unsupported("casing function applied to a string of capacity %d", sCap(arg)))
	}
	t := mk(KStr, 8*(ufCap+1), "uf:"+name, sPad(arg, ufCap))
	t.Max = ufCap
	e.define(st, sWellFormed(t, ufCap))
	return t
}

func (e *Engine) opaqueError(st *State, what string) Value {
	return e.newError(st, StrC(what))
}

// optsOf finds the option record the harness attached to a field's Options.
func (e *Engine) optsOf(st *State, field Value) (*StructV, *Term) {
	fp, ok := field.(*PtrV)
	if !ok {
		panic(unsupported("gogoproto reader: field is %T", field))
	}
	// field.Options
	var res *StructV
	has := FalseT
	for _, a := range fp.Alts {
		if a.O == nil {
			continue
		}
		cell, _ := e.cell(st, a.O)
		fs := getPath(cell, a.Path).(*StructV)
		stt := fs.T.Underlying().(*types.Struct)
		for i := 0; i < stt.NumFields(); i++ {
			if stt.Field(i).Name() != "Options" {
				continue
			}
			op := fs.F[i].(*PtrV)
			for _, oa := range op.Alts {
				if oa.O == nil {
					continue
				}
				rec, ok := e.optRecs[oa.O]
				if !ok {
					panic(unsupported("FieldOptions that were not built with vrtFieldOptions"))
				}
				if res != nil && res != rec {
					panic(unsupported("ambiguous FieldOptions"))
				}
				res = rec
				has = Or(has, And(a.G, oa.G))
			}
		}
	}
	return res, has
}

func recField(rec *StructV, name string) Value {
	stt := rec.T.Underlying().(*types.Struct)
	for i := 0; i < stt.NumFields(); i++ {
		if stt.Field(i).Name() == name {
			return rec.F[i]
		}
	}
	panic(unsupported("vrtOpts has no field %s", name))
}

func (e *Engine) kIntrinsic(fn *ssa.Function, name string, args []Value, st *State) (Value, *State, bool) {
	str := func(i int) *Term { return args[i].(*Term) }
	cst := func(i int, what string) string { return constStr(args[i], what) }
	switch name {
	case "strings.Contains", "strings.HasPrefix", "strings.HasSuffix", "strings.Index", "strings.LastIndex":
		a, b := str(0), str(1)
		if !(a.IsConst && b.IsConst) {
			e.needTheory(name)
			capGuard(a, b)
		}
		switch name {
		case "strings.Contains":
			return sContains(a, b), st, true
		case "strings.HasPrefix":
			return sHasPrefix(a, b), st, true
		case "strings.HasSuffix":
			return sHasSuffix(a, b), st, true
		case "strings.Index":
			return sIndex(a, b), st, true
		default:
			return sLastIndex(a, b), st, true
		}
	case "strings.LastIndexAny":
		s, chars := str(0), cst(1, "LastIndexAny chars")
		if s.IsConst {
			return BVC(64, uint64(int64(strings.LastIndexAny(s.S, chars)))), st, true
		}
		e.needTheory(name)
		capGuard(s)
		r := BVC(64, ^uint64(0))
		for i := 0; i < sCap(s); i++ {
			r = Ite(And(BVBin("<", BVC(8, uint64(i)), sLen8(s), false), byteInSet(sChar(s, i), chars)), BVC(64, uint64(i)), r)
		}
		return r, st, true
	case "strings.TrimSpace":
		if !str(0).IsConst {
			e.needTheory(name)
			capGuard(str(0))
		}
		return sTrim(str(0), wsChars, true, true), st, true
	case "strings.Trim":
		if !str(0).IsConst {
			e.needTheory(name)
			capGuard(str(0))
		}
		return sTrim(str(0), cst(1, "Trim cutset"), true, true), st, true
	case "strings.TrimPrefix":
		s, p := str(0), str(1)
		if s.IsConst && p.IsConst {
			return StrC(strings.TrimPrefix(s.S, p.S)), st, true
		}
		e.needTheory(name)
		capGuard(s, p)
		return Ite(sHasPrefix(s, p), sSubstr(s, sLen8(p), BVBin("-", sLen8(s), sLen8(p), false)), s), st, true
	case "strings.Split":
		return e.strSplit(st, str(0), cst(1, "Split separator")), st, true
	case "strings.Join":
		return e.strJoin(st, args[0].(*SliceV), str(1)), st, true
	case "strings.ReplaceAll":
		if !str(0).IsConst {
			e.needTheory(name)
			capGuard(str(0))
		}
		return sReplaceAll(str(0), cst(1, "ReplaceAll old"), cst(2, "ReplaceAll new")), st, true
	case "strings.Replace":
		n := args[3].(*Term)
		s := str(0)
		if !s.IsConst {
			e.needTheory(name)
			capGuard(s)
		}
		if n.IsConst && int64(n.BV) < 0 {
			return sReplaceAll(s, cst(1, "Replace old"), cst(2, "Replace new")), st, true
		}
		if n.IsConst && n.BV == 1 {
			old, nw := cst(1, "Replace old"), cst(2, "Replace new")
			if s.IsConst {
				return StrC(strings.Replace(s.S, old, nw, 1)), st, true
			}
			idx := sIndex(s, StrC(old))
			i8 := BVConv(idx, 64, 8, false)
			from := BVBin("+", i8, BVC(8, uint64(len(old))), false)
			rep := sConcat(sConcat(sSubstr(s, BVC(8, 0), i8), StrC(nw)), sSubstr(s, from, BVBin("-", sLen8(s), from, false)))
			return Ite(BVBin("<", idx, BVC(64, 0), true), s, rep), st, true
		}
		panic(unsupported("strings.Replace with n=%v", describe(n)))
	case "strings.ToLower":
		if !str(0).IsConst {
			e.needTheory(name)
			capGuard(str(0))
		}
		return sToLower(str(0)), st, true
	case "strconv.Itoa":
		t := str(0)
		if t.IsConst {
			return StrC(fmt.Sprint(sext(t.BV, 64))), st, true
		}
		panic(unsupported("strconv.Itoa of a symbolic integer"))
	case "strconv.ParseBool":
		s := str(0)
		tv := Or(Eq(s, StrC("1")), Eq(s, StrC("t")), Eq(s, StrC("T")), Eq(s, StrC("TRUE")), Eq(s, StrC("true")), Eq(s, StrC("True")))
		fv := Or(Eq(s, StrC("0")), Eq(s, StrC("f")), Eq(s, StrC("F")), Eq(s, StrC("FALSE")), Eq(s, StrC("false")), Eq(s, StrC("False")))
		bad := And(Not(tv), Not(fv))
		errV := mergeV(st, bad, e.opaqueError(st, "strconv.ParseBool: invalid syntax"), zero(fn.Signature.Results().At(1).Type()))
		return &TupleV{F: []Value{tv, errV}}, st, true
	case "strings.Count":
		s, sub := str(0), cst(1, "Count substring")
		if len(sub) != 1 {
			panic(unsupported("strings.Count with a multi-character substring"))
		}
		if s.IsConst {
			return BVC(64, uint64(strings.Count(s.S, sub))), st, true
		}
		e.needTheory(name)
		capGuard(s)
		n := sCap(s)
		total := BVC(64, 0)
		for i := 0; i < n; i++ {
			hit := And(BVBin("<", BVC(8, uint64(i)), sLen8(s), false), Eq(sChar(s, i), BVC(8, uint64(sub[0]))))
			total = BVBin("+", total, Ite(hit, BVC(64, 1), BVC(64, 0)), true)
		}
		total.Max = int64(n)
		return total, st, true
	case "io/ioutil.ReadFile", "os.ReadFile":
		if e.cfgFile == nil {
			panic(unsupported("ReadFile without a vrtConfigFile environment"))
		}
		errT := fn.Signature.Results().At(1).Type()
		errV := mergeV(st, e.cfgFile.ReadErr, e.opaqueError(st, "open: no such file"), zero(errT))
		return &TupleV{F: []Value{&BytesV{Nil: FalseT, S: e.freshStr(st, "filebytes", e.strMax)}, errV}}, st, true
	case "gopkg.in/yaml.v3.Unmarshal":
		return e.yamlUnmarshal(fn, args, st), st, true
	case "(*github.com/gravitational/protoc-gen-terraform/v3.MessageSchemaGenerator).Generate",
		"(*github.com/gravitational/protoc-gen-terraform/v3.MessageCopyFromGenerator).Generate",
		"(*github.com/gravitational/protoc-gen-terraform/v3.MessageCopyToGenerator).Generate":
		// jennifer rendering is environment: the call is recorded as "this function was emitted for <Name>"
		mn := e.messageNameOf(st, args[0])
		marker := map[string]string{"MessageSchemaGenerator": "func GenSchema" + mn + "(", "MessageCopyFromGenerator": "func Copy" + mn + "FromTerraform(",
			"MessageCopyToGenerator": "func Copy" + mn + "ToTerraform("}
		for k2, v := range marker {
			if strings.Contains(name, k2) {
				e.events = append(e.events, Event{Name: v, G: e.reach(st)})
			}
		}
		e.stubs[name+" (recorded emission)"]++
		return &TupleV{F: []Value{BVC(64, 0), zero(fn.Signature.Results().At(1).Type())}}, st, true
	case "(github.com/gravitational/protoc-gen-terraform/v3.SharedCodeGenerator).Write":
		e.events = append(e.events, Event{Name: "type attrReadMissingDiag struct", G: e.reach(st)})
		return &TupleV{F: []Value{BVC(64, 0), zero(fn.Signature.Results().At(1).Type())}}, st, true
	case "(*github.com/gravitational/protoc-gen-terraform/v3.Config).dump":
		e.stubs["Config.dump (logging only)"]++
		return nil, st, true
	case "github.com/stoewer/go-strcase.SnakeCase":
		return e.ufStr(st, "snake", str(0)), st, true
	case "github.com/stoewer/go-strcase.UpperCamelCase":
		return e.ufStr(st, "ucamel", str(0)), st, true
	case "github.com/gravitational/trace.Wrap":
		// Wrap(nil) = nil; Wrap(err) is an error again: the original is returned
		return args[0], st, true
	case "github.com/gravitational/trace.Errorf", "github.com/gravitational/trace.BadParameter":
		return e.opaqueError(st, "trace error"), st, true
	case "sort.Slice":
		return nil, e.sortSlice(args[0], args[1], st), true
	}
	if strings.HasPrefix(name, "github.com/sirupsen/logrus.") || strings.HasPrefix(name, "(*github.com/sirupsen/logrus.") {
		e.events = append(e.events, Event{Name: "log:" + fn.Name(), G: e.reach(st)})
		res := fn.Signature.Results()
		switch res.Len() {
		case 0:
			return nil, st, true
		case 1:
			// WithError / WithField return an *Entry: an opaque non-nil pointer
			if _, ok := res.At(0).Type().Underlying().(*types.Pointer); ok {
				o := newObj(res.At(0).Type().Underlying().(*types.Pointer).Elem())
				st.heap[o] = &OpaqueV{Name: "logrus.Entry"}
				return &PtrV{Alts: []PAlt{{G: TrueT, O: o}}}, st, true
			}
		}
	}
	if strings.HasPrefix(name, "github.com/gogo/protobuf/gogoproto.") {
		return e.gogoOption(fn, strings.TrimPrefix(name, "github.com/gogo/protobuf/gogoproto."), args, st)
	}
	if v, st2, ok := e.genStub(fn, name, args, st); ok {
		return v, st2, true
	}
	return nil, st, false
}

// gogoOption answers a gogoproto reader from the vrtOpts record of the field.
func (e *Engine) gogoOption(fn *ssa.Function, short string, args []Value, st *State) (Value, *State, bool) {
	boolOpt := map[string]string{"IsEmbed": "Embed", "IsStdTime": "StdTime", "IsStdDuration": "StdDuration"}
	strOpt := map[string]string{"GetCastType": "CastType", "GetCustomType": "CustomType"}
	isOpt := map[string]string{"IsCastType": "CastType", "IsCustomType": "CustomType"}
	absent := map[string]bool{"IsStdDouble": true, "IsStdFloat": true, "IsStdInt64": true, "IsStdUInt64": true, "IsStdInt32": true,
		"IsStdUInt32": true, "IsStdBool": true, "IsStdString": true, "IsStdBytes": true, "IsWktPtr": true}
	if absent[short] {
		e.bounds["wktpointer std wrappers absent (outside D)"] = true
		return FalseT, st, true
	}
	rec, has := e.optsOf(st, args[0])
	get := func(field string, dflt Value) Value {
		if rec == nil {
			return dflt
		}
		return mergeV(st, has, recField(rec, field), dflt)
	}
	if f, ok := boolOpt[short]; ok {
		return get(f, FalseT), st, true
	}
	if f, ok := strOpt[short]; ok {
		return get(f, StrC("")), st, true
	}
	if f, ok := isOpt[short]; ok {
		return Not(Eq(get(f, StrC("")).(*Term), StrC(""))), st, true
	}
	switch short {
	case "IsNullable":
		hasN := get("HasNullable", FalseT).(*Term)
		return Or(Not(hasN), get("Nullable", TrueT).(*Term)), st, true
	case "GetJsonTag":
		// *string: nil when the option is absent
		hasT := get("HasJSONTag", FalseT).(*Term)
		o := newObj(types.Typ[types.String])
		st.heap[o] = get("JSONTag", StrC(""))
		return &PtrV{Alts: []PAlt{{G: hasT, O: o}, {G: Not(hasT)}}}, st, true
	}
	return nil, st, false
}

// sortSlice: an insertion sort that calls the real less closure symbolically.
func (e *Engine) sortSlice(x Value, less Value, st *State) *State {
	iv, ok := x.(*IfaceV)
	if !ok || len(iv.Alts) != 1 {
		panic(unsupported("sort.Slice on %T", x))
	}
	sl, ok := iv.Alts[0].V.(*SliceV)
	if !ok {
		panic(unsupported("sort.Slice on non-slice"))
	}
	fv := less.(*FuncV)
	if !sl.Len.IsConst {
		panic(unsupported("sort.Slice on a slice of symbolic length (harness: use a fixed length)"))
	}
	n := int(sl.Len.BV)
	if n < 2 {
		return st
	}
	arr := st.heap[sl.Arr].(*ArrayV)
	swap := func(st *State, i, j int, c *Term) {
		a := st.heap[sl.Arr].(*ArrayV)
		na := &ArrayV{F: append([]Value(nil), a.F...)}
		vi, vj := a.F[sl.Off+i], a.F[sl.Off+j]
		na.F[sl.Off+i] = mergeV(st, c, vj, vi)
		na.F[sl.Off+j] = mergeV(st, c, vi, vj)
		st.heap[sl.Arr] = na
	}
	_ = arr
	// bubble passes with the comparator evaluated on the current contents
	for pass := 0; pass < n-1; pass++ {
		for j := 0; j < n-1-pass; j++ {
			var r Value
			r, st = e.call(fv.Fn, []Value{BVC(64, uint64(j+1)), BVC(64, uint64(j))}, fv.Binds, st)
			swap(st, j, j+1, r.(*Term))
		}
	}
	e.stubs["sort.Slice (bubble sort calling the real less)"]++
	return st
}

// Fixed universe of the generator stub (mirrored natively by vrtGenerator in zz_verif_rt.go).
const (
	uniMsg     = ".p.Msg"
	uniMapStr  = ".p.T.MEntry" // map<string, string>
	uniMapInt  = ".p.T.IEntry" // map<int32, string>
	uniTime    = ".google.protobuf.Timestamp"
	uniDur     = ".google.protobuf.Duration"
	typeMsgNum = 11
	labelRep   = 3
)

// fieldScalars reads Type, Label and TypeName of a *FieldDescriptorProto.
func (e *Engine) fieldScalars(st *State, field Value) (typ, label *Term, typeName *Term, hasTN *Term) {
	fp := field.(*PtrV)
	if len(fp.Alts) != 1 || fp.Alts[0].O == nil {
		panic(unsupported("generator stub: ambiguous field pointer"))
	}
	cell, _ := e.cell(st, fp.Alts[0].O)
	fs := getPath(cell, fp.Alts[0].Path).(*StructV)
	stt := fs.T.Underlying().(*types.Struct)
	deref := func(v Value, t types.Type) (Value, *Term) {
		p := v.(*PtrV)
		var res Value = zero(t)
		has := FalseT
		for _, a := range p.Alts {
			if a.O == nil {
				continue
			}
			c, _ := e.cell(st, a.O)
			res = mergeV(st, a.G, getPath(c, a.Path), res)
			has = Or(has, a.G)
		}
		return res, has
	}
	for i := 0; i < stt.NumFields(); i++ {
		ft := stt.Field(i).Type()
		switch stt.Field(i).Name() {
		case "Type":
			v, _ := deref(fs.F[i], ft.(*types.Pointer).Elem())
			typ = v.(*Term)
		case "Label":
			v, _ := deref(fs.F[i], ft.(*types.Pointer).Elem())
			label = v.(*Term)
		case "TypeName":
			v, h := deref(fs.F[i], ft.(*types.Pointer).Elem())
			typeName, hasTN = v.(*Term), h
		}
	}
	return
}

func (e *Engine) genStub(fn *ssa.Function, name string, args []Value, st *State) (Value, *State, bool) {
	const gp = "(*github.com/gogo/protobuf/protoc-gen-gogo/generator.Generator)."
	if !strings.HasPrefix(name, gp) {
		return nil, st, false
	}
	switch strings.TrimPrefix(name, gp) {
	case "IsMap":
		typ, label, tn, has := e.fieldScalars(st, args[1])
		isEntry := And(has, Or(Eq(tn, StrC(uniMapStr)), Eq(tn, StrC(uniMapInt))))
		e.bounds["generator stub: fixed universe of type names {.p.Msg, .p.T.MEntry, .p.T.IEntry, Timestamp, Duration}"] = true
		return And(Eq(typ, BVC(32, typeMsgNum)), Eq(label, BVC(32, labelRep)), isEntry), st, true
	}
	return nil, st, false
}

// yamlUnmarshal: environment stub. On a parse error the target is untouched; otherwise the file's
// single `types` entry (if any) is stored into the target Config.
func (e *Engine) yamlUnmarshal(fn *ssa.Function, args []Value, st *State) Value {
	if e.cfgFile == nil {
		panic(unsupported("yaml.Unmarshal without a vrtConfigFile environment"))
	}
	env := e.cfgFile
	errT := fn.Signature.Results().At(0).Type()
	iv, ok := args[1].(*IfaceV)
	if !ok || len(iv.Alts) != 1 {
		panic(unsupported("yaml.Unmarshal target"))
	}
	pp := iv.Alts[0].V.(*PtrV)                                   // **Config
	cp := e.load(st, pp, types.NewPointer(types.Typ[types.Int])) // *Config
	cfgPtr, ok := cp.(*PtrV)
	if !ok {
		panic(unsupported("yaml.Unmarshal target is %T", cp))
	}
	for _, a := range cfgPtr.Alts {
		if a.O == nil {
			continue
		}
		cell, _ := e.cell(st, a.O)
		sv := getPath(cell, a.Path).(*StructV)
		stt := sv.T.Underlying().(*types.Struct)
		for i := 0; i < stt.NumFields(); i++ {
			if stt.Field(i).Name() == "Suffixes" && len(env.Suf) > 0 {
				cell, _ = e.cell(st, a.O)
				sv = getPath(cell, a.Path).(*StructV)
				mo := newObj(stt.Field(i).Type())
				mc := &MapC{}
				any := FalseT
				for _, kv := range env.Suf {
					present := Not(Eq(kv[0], StrC("")))
					mc.Ents = append(mc.Ents, MEnt{P: present, K: kv[0], V: kv[1]})
					any = Or(any, present)
				}
				st.heap[mo] = mc
				set := And(a.G, Not(env.YamlErr), any)
				nv := mergeV(st, set, &MapV{Alts: []MAlt{{G: TrueT, O: mo}}}, sv.F[i])
				st.heap[a.O] = setPath(cell, append(append([]int(nil), a.Path...), i), nv)
				continue
			}
			if stt.Field(i).Name() != "Types" {
				continue
			}
			cell, _ = e.cell(st, a.O)
			sv = getPath(cell, a.Path).(*StructV)
			mo := newObj(stt.Field(i).Type())
			hasType := Not(Eq(env.Typ, StrC("")))
			st.heap[mo] = &MapC{Ents: []MEnt{{P: hasType, K: env.Typ, V: zero(stt.Field(i).Type().Underlying().(*types.Map).Elem())}}}
			set := And(a.G, Not(env.YamlErr), Or(hasType, env.Empty))
			nv := mergeV(st, set, &MapV{Alts: []MAlt{{G: TrueT, O: mo}}}, sv.F[i])
			st.heap[a.O] = setPath(cell, append(append([]int(nil), a.Path...), i), nv)
		}
	}
	e.stubs["yaml.Unmarshal (environment: one `types` entry, `types: []`, no `types` key, or a parse error)"]++
	return mergeV(st, env.YamlErr, e.opaqueError(st, "yaml: parse error"), zero(errT))
}

// strSplit: strings.Split for a constant single-character separator, at most e.splitMax parts.
func (e *Engine) strSplit(st *State, s *Term, sep string) Value {
	et := types.Typ[types.String]
	mkSlice := func(parts []Value, ln *Term) Value {
		arr := &ArrayV{F: parts}
		o := newObj(types.NewArray(et, int64(len(parts))))
		st.heap[o] = arr
		return &SliceV{Nil: FalseT, Len: ln, Arr: o, Max: len(parts)}
	}
	if s.IsConst {
		var vs []Value
		for _, p := range strings.Split(s.S, sep) {
			vs = append(vs, StrC(p))
		}
		return mkSlice(vs, BVC(64, uint64(len(vs))))
	}
	e.needTheory("strings.Split")
	capGuard(s)
	if len(sep) != 1 {
		panic(unsupported("strings.Split with a separator of %d bytes", len(sep)))
	}
	parts, count, more := sSplit(s, sep[0], e.splitMax)
	// stated bound: at most splitMax parts
	e.define(st, Not(more))
	e.bounds[fmt.Sprintf("strings.Split yields at most %d parts", e.splitMax)] = true
	vs := make([]Value, len(parts))
	for i, p := range parts {
		vs[i] = p
	}
	count.Max = int64(len(parts))
	return mkSlice(vs, count)
}

// strJoin: strings.Join over a slice of bounded length.
func (e *Engine) strJoin(st *State, sl *SliceV, sep *Term) *Term {
	cells := sliceCells(st, sl)
	r := StrC("")
	for i := 0; i < sl.Max && i < len(cells); i++ {
		p := cells[i].(*Term)
		var nx *Term
		if i == 0 {
			nx = p
		} else {
			nx = StrConcat(StrConcat(r, sep), p)
		}
		r = Ite(BVBin("<", BVC(64, uint64(i)), sl.Len, true), nx, r)
	}
	return r
}

// messageNameOf reads <generator>.Message.Name of a Message*Generator receiver.
func (e *Engine) messageNameOf(st *State, recv Value) string {
	gv := e.load(st, recv.(*PtrV), types.Typ[types.Int]).(*StructV)
	mv := e.load(st, gv.F[0].(*PtrV), types.Typ[types.Int]).(*StructV)
	stt := mv.T.Underlying().(*types.Struct)
	for i := 0; i < stt.NumFields(); i++ {
		if stt.Field(i).Name() == "Name" {
			return constStr(mv.F[i], "Message.Name in the write kernel")
		}
	}
	panic(unsupported("Message.Name not found"))
}
