#!/bin/sh
# usage: selftest_mutant.sh <name> <patch.diff> <check ids...>
# Applies a seeded change in a scratch worktree (never in /repo), confirms it compiles and keeps the
# repository's tests green, then runs the given checks against it. Removes the worktree afterwards.
set -u
NAME=$1; PATCH=$2; shift 2
export GOFLAGS=-mod=mod GOPROXY=off GOSUMDB=off GOTOOLCHAIN=local
WT=/var/tmp/mrepo-$NAME
git -C /repo worktree remove --force $WT 2>/dev/null
rm -rf $WT
git -C /repo worktree add --detach $WT HEAD >/dev/null 2>&1 || exit 3
( cd $WT && git apply "$PATCH" ) || { echo "PATCH DOES NOT APPLY"; git -C /repo worktree remove --force $WT; exit 3; }
( cd $WT && go build ./... && go test -count=1 ./... >/dev/null 2>&1 ) && echo "mutant compiles, repo tests pass" || { echo "MUTANT BREAKS BUILD OR TESTS"; }
for c in "$@"; do
  VERIF_EVIDENCE_DIR=/var/tmp/mut-evidence VERIF_REPO=$WT python3 /verif/check.py $c > /tmp/mut-$NAME-$c.log 2>&1
  rc=$?
  echo "check $c -> exit $rc: $(grep -c '^VIOLATION' /tmp/mut-$NAME-$c.log) violation line(s), $(grep -c '^ERROR' /tmp/mut-$NAME-$c.log) error line(s)"
  grep -E "^counterexample" /tmp/mut-$NAME-$c.log | head -4
  grep -E "^ERROR" /tmp/mut-$NAME-$c.log | head -3 | cut -c1-250
done
git -C /repo worktree remove --force $WT
rm -rf $WT
