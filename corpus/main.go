package main

import (
	"encoding/json"
	"flag"
	"fmt"
	"os"
	"strings"
)

func main() {
	if len(os.Args) < 2 {
		fmt.Fprintln(os.Stderr, "usage: corpus list|build ...")
		os.Exit(2)
	}
	switch os.Args[1] {
	case "list":
		fs := flag.NewFlagSet("list", flag.ExitOnError)
		tier := fs.String("tier", "quick", "quick | thorough")
		fs.Parse(os.Args[2:])
		var out []map[string]interface{}
		for _, p := range programs() {
			if (*tier == "quick" && !p.Quick) || p.ObserveOnly {
				continue
			}
			out = append(out, map[string]interface{}{"name": p.Name, "quick": p.Quick, "families": p.Families})
		}
		b, _ := json.Marshal(out)
		fmt.Println(string(b))
	case "observe":
		fs := flag.NewFlagSet("observe", flag.ExitOnError)
		plug := fs.String("plugin", "", "path of the plugin binary")
		out := fs.String("out", "", "scratch directory")
		fs.Parse(os.Args[2:])
		what := fs.Arg(0)
		var all []*Observation
		if what == "" || what == "unsupported" {
			for _, u := range unsupported_() {
				all = append(all, observe(u, *plug, *out)...)
			}
		}
		if what == "determinism" {
			all = append(all, observeDeterminism(*plug, *out, 0)...)
		}
		if what == "nested" {
			all = append(all, observeNestedDecl(*plug, *out)...)
		}
		if what == "sorted" {
			all = append(all, observeSorted(*plug, *out)...)
		}
		if what == "selection" {
			all = append(all, observeTextIndependence(*plug, *out)...)
		}
		if what == "" || what == "selection" {
			for _, sel := range selections() {
				all = append(all, observeSelection(sel, *plug, *out))
			}
		}
		b, _ := json.Marshal(all)
		fmt.Println(string(b))
	case "variants":
		fs := flag.NewFlagSet("variants", flag.ExitOnError)
		tier := fs.String("tier", "quick", "quick | thorough")
		prop := fs.String("prop", "", "property id")
		fs.Parse(os.Args[2:])
		var out []map[string]interface{}
		for _, v := range variants() {
			if (*tier == "quick" && !v.Quick) || (*prop != "" && v.Prop != *prop) {
				continue
			}
			out = append(out, map[string]interface{}{"name": v.Name, "prop": v.Prop, "base": v.Base})
		}
		b, _ := json.Marshal(out)
		fmt.Println(string(b))
	case "build":
		fs := flag.NewFlagSet("build", flag.ExitOnError)
		name := fs.String("program", "", "program name")
		plug := fs.String("plugin", "", "path of the plugin binary built from /repo")
		out := fs.String("out", "", "output directory (scratch module)")
		kl := fs.Int("kl", 2, "list bound")
		km := fs.Int("km", 2, "map bound")
		fams := fs.String("families", "", "comma separated harness families (default: the program's)")
		known := fs.String("known", "", "known-findings JSON (entries of this property with status known)")
		variant := fs.String("variant", "", "differential variant name (instead of -program)")
		fs.Parse(os.Args[2:])
		if *variant != "" {
			v := findVariant(*variant)
			if v == nil {
				must(fmt.Errorf("unknown variant %q", *variant))
			}
			info, err := buildVariant(v, *plug, *out, *kl, *km)
			must(err)
			b, _ := json.Marshal(info)
			fmt.Println(string(b))
			return
		}
		p := findProgram(*name)
		if p == nil {
			must(fmt.Errorf("unknown program %q", *name))
		}
		if *fams != "" {
			var keep []string
			for _, f := range strings.Split(*fams, ",") {
				if inList(p.Families, f) {
					keep = append(keep, f)
				}
			}
			p.Families = keep
		}
		for _, f := range p.Families {
			if b, ok := p.Bounds[f]; ok {
				if b[0] < *kl {
					*kl = b[0]
				}
				if b[1] < *km {
					*km = b[1]
				}
			}
		}
		loadKnown(*known)
		info, err := buildProgram(p, *plug, *out, *kl, *km)
		must(err)
		b, _ := json.Marshal(info)
		fmt.Println(string(b))
	default:
		fmt.Fprintln(os.Stderr, "unknown command", os.Args[1])
		os.Exit(2)
	}
}
