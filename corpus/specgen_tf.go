package main

// specgen, Terraform side: arbitrary conforming objects (as the framework would
// decode them, and with payload under Null/Unknown), deep clone, comparators,
// and the From (C05, C07), Echo (C08) and Refresh (C09) harnesses.

import (
	"fmt"
	"strings"
)

func (g *Gen) drawTF(l *Leaf) string {
	switch l.ValGo {
	case "int64":
		return "vrt.Int64()"
	case "float64":
		return "vrt.Float64()"
	case "bool":
		return "vrt.Bool()"
	case "string":
		return "vrt.String()"
	case "time.Time":
		return "vrt.Time()"
	case "time.Duration":
		return "time.Duration(vrt.Int64())"
	}
	panic("drawTF " + l.ValGo)
}

func tfZero(l *Leaf) string {
	switch l.ValGo {
	case "int64", "float64", "time.Duration":
		return "0"
	case "bool":
		return "false"
	case "string":
		return `""`
	case "time.Time":
		return "time.Time{}"
	}
	panic("tfZero")
}

// inRange: the Terraform-side value x is representable by the Go field (C08's side condition).
func inRange(l *Leaf, x string) string {
	switch l.Class {
	case CInt:
		switch {
		case l.Bits == 32 && l.Signed:
			return "int64(int32(" + x + ")) == " + x
		case l.Bits == 32:
			return "int64(uint32(" + x + ")) == " + x
		}
	case CFloat32:
		return "float64(float32(" + x + ")) == " + x
	case CFloat64:
		return x + " == " + x
	}
	return "true"
}

// fromTF is the documented Go-side value of a Terraform value x.
func (g *Gen) fromTF(l *Leaf, x string) string {
	if l.Class == CBytes {
		return "[]byte(" + x + ")"
	}
	return g.leafGo(l) + "(" + x + ")"
}

// leafPair emits statements that define va, vb (attr.Value): vb carries a payload under Null/Unknown.
func (g *Gen) leafPair(w func(string, ...interface{}), l *Leaf, ind string) {
	vt := g.tfv(l.TFVal)
	w(ind+"n := vrt.Bool(); u := vrt.Bool(); x := %s", g.drawTF(l))
	w(ind + "if opt.NoNull { n = false }; if opt.Known { n, u = false, false }")
	w(ind + "vrt.Assume(!(n && u))")
	w(ind+"if opt.InRange { vrt.Assume(n || u || (%s)) }", inRange(l, "x"))
	w(ind+"xa := x; if n || u { xa = %s }", tfZero(l))
	w(ind+"va := %s{Null: n, Unknown: u, Value: xa}; vb := %s{Null: n, Unknown: u, Value: x}", vt, vt)
}

func (g *Gen) havocTF(o *Occ) {
	if !g.once("havocTF_" + o.ID) {
		return
	}
	var b strings.Builder
	w := func(format string, a ...interface{}) { fmt.Fprintf(&b, "\t"+format+"\n", a...) }
	w("aa := map[string]attr.Value{}; ab := map[string]attr.Value{}")
	if o.Empty {
		w(`{ n := vrt.Bool(); u := vrt.Bool(); x := vrt.Bool(); if opt.Known { n, u = false, false }; vrt.Assume(!(n && u)); xa := x; if n || u { xa = false }`)
		w(`  aa["active"] = types.Bool{Null: n, Unknown: u, Value: xa}; ab["active"] = types.Bool{Null: n, Unknown: u, Value: x} }`)
	}
	for _, s := range o.Slots {
		n := s.Attr
		eopt := "opt.elem()"
		switch s.Kind {
		case SScalar:
			w("{")
			g.leafPair(w, s.Leaf, "  ")
			if s.Oneof != nil {
				w("  nn_%s_%s = !n", s.Oneof.GoName, s.GoName)
			}
			w("  aa[%q] = va; ab[%q] = vb }", n, n)
		case SList, SMsgList:
			w("{ n := vrt.Bool(); u := vrt.Bool(); ln := vrt.Len(%d); if opt.Known { n, u = false, false }; vrt.Assume(!(n && u))", g.KL)
			w("  ea := make([]attr.Value, ln); eb := make([]attr.Value, ln)")
			w("  for i := 0; i < %d; i++ {", g.KL)
			if s.Kind == SList {
				w("    opt := %s", eopt)
				g.leafPair(w, s.Leaf, "    ")
			} else {
				w("    n := vrt.Bool(); u := vrt.Bool(); if opt.NoNullElems { n = false }; if opt.Known { n, u = false, false }; vrt.Assume(!(n && u))")
				w("    va, vb := havocTF_%s(opt); va.Null, va.Unknown, vb.Null, vb.Unknown = n, u, n, u; if n || u { va.Attrs = nil }", s.Sub.ID)
			}
			w("    if i < ln { ea[i] = va; eb[i] = vb }")
			w("  }")
			w("  la := ea; if n || u { la = nil }")
			w("  aa[%q] = types.List{ElemType: %s, Null: n, Unknown: u, Elems: la}; ab[%q] = types.List{ElemType: %s, Null: n, Unknown: u, Elems: eb} }", n, g.elemTypeExpr(s), n, g.elemTypeExpr(s))
		case SMap, SMsgMap:
			w("{ n := vrt.Bool(); u := vrt.Bool(); ln := vrt.Len(%d); if opt.Known { n, u = false, false }; vrt.Assume(!(n && u))", g.KM)
			w("  ea := map[string]attr.Value{}; eb := map[string]attr.Value{}")
			w("  for i := 0; i < %d; i++ { k := vrt.String()", g.KM)
			if s.Kind == SMap {
				w("    opt := %s", eopt)
				g.leafPair(w, s.Leaf, "    ")
			} else {
				w("    n := vrt.Bool(); u := vrt.Bool(); if opt.NoNullElems { n = false }; if opt.Known { n, u = false, false }; vrt.Assume(!(n && u))")
				w("    va, vb := havocTF_%s(opt); va.Null, va.Unknown, vb.Null, vb.Unknown = n, u, n, u; if n || u { va.Attrs = nil }", s.Sub.ID)
			}
			w("    if i < ln { ea[k] = va; eb[k] = vb }")
			w("  }")
			w("  la := ea; if n || u { la = nil }")
			w("  aa[%q] = types.Map{ElemType: %s, Null: n, Unknown: u, Elems: la}; ab[%q] = types.Map{ElemType: %s, Null: n, Unknown: u, Elems: eb} }", n, g.elemTypeExpr(s), n, g.elemTypeExpr(s))
		case SMsg:
			w("{ n := vrt.Bool(); u := vrt.Bool(); if opt.Known { n, u = false, false }; vrt.Assume(!(n && u))")
			if !s.SubPtr {
				// a non-nullable message attribute may still be null/unknown in a plan
			}
			w("  va, vb := havocTF_%s(opt); va.Null, va.Unknown, vb.Null, vb.Unknown = n, u, n, u; if n || u { va.Attrs = nil }", s.Sub.ID)
			if s.Oneof != nil {
				w("  nn_%s_%s = !n", s.Oneof.GoName, s.GoName)
			}
			w("  aa[%q] = va; ab[%q] = vb }", n, n)
		case SCustom:
			w("aa[%q] = customValue_%s(); ab[%q] = customValue_%s()", n, s.Suffix, n, s.Suffix)
		}
	}
	var decl strings.Builder
	for _, grp := range o.Oneofs {
		if len(grp.Slots) == 0 {
			continue
		}
		var names []string
		for _, s := range grp.Slots {
			if s.Kind == SCustom {
				continue
			}
			v := fmt.Sprintf("nn_%s_%s", grp.GoName, s.GoName)
			fmt.Fprintf(&decl, "\tvar %s bool\n", v)
			names = append(names, v)
		}
		// at most one branch of the group that is not null (C08's side condition)
		var pairs []string
		for i := range names {
			for j := i + 1; j < len(names); j++ {
				pairs = append(pairs, "!("+names[i]+" && "+names[j]+")")
			}
		}
		if len(pairs) > 0 {
			w("if opt.OneBranch { vrt.Assume(%s) }", strings.Join(pairs, " && "))
		}
		w("_ = []bool{%s}", strings.Join(names, ", "))
	}
	g.p("func havocTF_%s(opt tfOpt) (types.Object, types.Object) {\n%s%s\treturn types.Object{AttrTypes: attrTypes_%s(), Attrs: aa}, types.Object{AttrTypes: attrTypes_%s(), Attrs: ab}\n}\n",
		o.ID, decl.String(), b.String(), o.ID, o.ID)
	for _, s := range o.Slots {
		if s.Sub != nil {
			g.havocTF(s.Sub)
		}
	}
}

const tfOptDecl = `
// tfOpt selects the class of Terraform objects havocTF_* draws from.
type tfOpt struct {
	NoNull      bool // this value may not be null (set for list/map elements under NoNullElems)
	NoNullElems bool // list/map elements are never null (C08)
	Known       bool // everything known and non-null (fully-known states)
	InRange     bool // numbers representable by the Go field (C08)
	OneBranch   bool // at most one non-null branch per oneof group (C08)
}

func (o tfOpt) elem() tfOpt { e := o; e.NoNull = o.NoNullElems; return e }
`

// ---------- deep clone ----------

func (g *Gen) cloneTF(o *Occ) {
	if !g.once("cloneTF_" + o.ID) {
		return
	}
	var b strings.Builder
	w := func(format string, a ...interface{}) { fmt.Fprintf(&b, "\t"+format+"\n", a...) }
	w("r := types.Object{Null: o.Null, Unknown: o.Unknown, AttrTypes: o.AttrTypes}")
	w("if o.Attrs == nil { return r }")
	w("r.Attrs = map[string]attr.Value{}")
	if o.Empty {
		w(`if v, ok := o.Attrs["active"]; ok { r.Attrs["active"] = v }`)
	}
	for _, inj := range o.Injected {
		w(`if v, ok := o.Attrs[%q]; ok { r.Attrs[%q] = v }`, inj.Name, inj.Name)
	}
	for _, s := range o.Slots {
		n := s.Attr
		switch s.Kind {
		case SScalar, SCustom:
			w(`if v, ok := o.Attrs[%q]; ok { r.Attrs[%q] = v }`, n, n)
		case SList, SMsgList:
			w(`if v, ok := o.Attrs[%q]; ok { if c, ok := v.(types.List); ok { nc := c; if c.Elems != nil { nc.Elems = make([]attr.Value, len(c.Elems)); for i := range c.Elems {`, n)
			if s.Kind == SMsgList {
				w(`  if e, ok := c.Elems[i].(types.Object); ok { nc.Elems[i] = cloneTF_%s(e) } else { nc.Elems[i] = c.Elems[i] }`, s.Sub.ID)
			} else {
				w(`  nc.Elems[i] = c.Elems[i]`)
			}
			w(`} }; r.Attrs[%q] = nc } else { r.Attrs[%q] = v } }`, n, n)
		case SMap, SMsgMap:
			w(`if v, ok := o.Attrs[%q]; ok { if c, ok := v.(types.Map); ok { nc := c; if c.Elems != nil { nc.Elems = map[string]attr.Value{}; for k, ev := range c.Elems {`, n)
			if s.Kind == SMsgMap {
				w(`  if e, ok := ev.(types.Object); ok { nc.Elems[k] = cloneTF_%s(e) } else { nc.Elems[k] = ev }`, s.Sub.ID)
			} else {
				w(`  nc.Elems[k] = ev`)
			}
			w(`} }; r.Attrs[%q] = nc } else { r.Attrs[%q] = v } }`, n, n)
		case SMsg:
			w(`if v, ok := o.Attrs[%q]; ok { if e, ok := v.(types.Object); ok { r.Attrs[%q] = cloneTF_%s(e) } else { r.Attrs[%q] = v } }`, n, n, s.Sub.ID, n)
		}
	}
	w("return r")
	g.p("func cloneTF_%s(o types.Object) types.Object {\n%s}\n", o.ID, b.String())
	for _, s := range o.Slots {
		if s.Sub != nil {
			g.cloneTF(s.Sub)
		}
	}
}

func tfLeafEq(l *Leaf, a, b string) string {
	if l.ValGo == "float64" {
		return "(" + a + " == " + b + " || (" + a + " != " + a + " && " + b + " != " + b + "))"
	}
	return "(" + a + " == " + b + ")"
}

// ---------- equality of Terraform values (idempotence, C09) ----------

func (g *Gen) tfEq(o *Occ) {
	if !g.once("tfEq_" + o.ID) {
		return
	}
	var b strings.Builder
	w := func(format string, a ...interface{}) { fmt.Fprintf(&b, "\t"+format+"\n", a...) }
	w("_, _ = x, y")
	leaf := func(l *Leaf, xa, ya, lab, ind string) {
		vt := g.tfv(l.TFVal)
		w(ind+`{ a, ok1 := %s.(%s); b, ok2 := %s.(%s); vrt.Assert(pre+%s+":type", ok1 == ok2)`, xa, vt, ya, vt, lab)
		w(ind+`  vrt.Assert(pre+%s+":flags", a.Null == b.Null && a.Unknown == b.Unknown)`, lab)
		w(ind+`  if !a.Null && !a.Unknown && !b.Null && !b.Unknown { vrt.Assert(pre+%s+":value", %s) } }`, lab, tfLeafEq(l, "a.Value", "b.Value"))
	}
	obj := func(sub *Occ, xa, ya, lab, ind string) {
		w(ind+`{ a, ok1 := %s.(types.Object); b, ok2 := %s.(types.Object); vrt.Assert(pre+%s+":type", ok1 == ok2)`, xa, ya, lab)
		w(ind+`  vrt.Assert(pre+%s+":flags", a.Null == b.Null && a.Unknown == b.Unknown)`, lab)
		w(ind+`  if !a.Null && !a.Unknown && !b.Null && !b.Unknown { tfEq_%s(a, b, pre, %s) } }`, sub.ID, lab)
	}
	if o.Empty {
		leaf(&Leaf{TFVal: "types.Bool", ValGo: "bool"}, `x.Attrs["active"]`, `y.Attrs["active"]`, `path+"/active"`, "")
	}
	for _, s := range o.Slots {
		n := s.Attr
		lab := fmt.Sprintf(`path+"/%s"`, n)
		xa, ya := fmt.Sprintf("x.Attrs[%q]", n), fmt.Sprintf("y.Attrs[%q]", n)
		switch s.Kind {
		case SScalar:
			leaf(s.Leaf, xa, ya, lab, "")
		case SMsg:
			obj(s.Sub, xa, ya, lab, "")
		case SList, SMsgList:
			w(`{ a, ok1 := %s.(types.List); b, ok2 := %s.(types.List); vrt.Assert(pre+%s+":type", ok1 == ok2)`, xa, ya, lab)
			w(`  vrt.Assert(pre+%s+":flags", a.Null == b.Null && a.Unknown == b.Unknown)`, lab)
			w(`  if !a.Null && !a.Unknown && !b.Null && !b.Unknown { vrt.Assert(pre+%s+":len", len(a.Elems) == len(b.Elems)); for i := range a.Elems { if i < len(b.Elems) {`, lab)
			if s.Kind == SList {
				leaf(s.Leaf, "a.Elems[i]", "b.Elems[i]", lab+`+"[]"`, "    ")
			} else {
				obj(s.Sub, "a.Elems[i]", "b.Elems[i]", lab+`+"[]"`, "    ")
			}
			w(`  } } } }`)
		case SMap, SMsgMap:
			w(`{ a, ok1 := %s.(types.Map); b, ok2 := %s.(types.Map); vrt.Assert(pre+%s+":type", ok1 == ok2)`, xa, ya, lab)
			w(`  vrt.Assert(pre+%s+":flags", a.Null == b.Null && a.Unknown == b.Unknown)`, lab)
			w(`  if !a.Null && !a.Unknown && !b.Null && !b.Unknown { vrt.Assert(pre+%s+":len", len(a.Elems) == len(b.Elems)); for k, ea := range a.Elems { eb, ok := b.Elems[k]; vrt.Assert(pre+%s+":key", ok); if ok {`, lab, lab)
			if s.Kind == SMap {
				leaf(s.Leaf, "ea", "eb", lab+`+"[]"`, "    ")
			} else {
				obj(s.Sub, "ea", "eb", lab+`+"[]"`, "    ")
			}
			w(`  } } } }`)
		}
	}
	g.p("func tfEq_%s(x, y types.Object, pre, path string) {\n%s}\n", o.ID, b.String())
	for _, s := range o.Slots {
		if s.Sub != nil {
			g.tfEq(s.Sub)
		}
	}
}

// ---------- C05: null / unknown reset the target ----------

func (g *Gen) resetCheck(o *Occ) {
	if !g.once("resetCheck_" + o.ID) {
		return
	}
	var b strings.Builder
	w := func(format string, a ...interface{}) { fmt.Fprintf(&b, "\t"+format+"\n", a...) }
	w("_, _ = tf, p")
	for _, s := range o.Slots {
		if s.Oneof != nil {
			// the oneof holder is decided by the whole group (C07); what C05 states for one branch: a null or
			// unknown branch attribute never makes its branch the held one
			if s.Kind != SCustom {
				vt := "types.Object"
				if s.Kind == SScalar {
					vt = g.tfv(s.Leaf.TFVal)
				}
				w(`{ v, _ := tf.Attrs[%q].(%s); if v.Null || v.Unknown { _, held := p.%s.(*%s%s); vrt.Assert("C05/"+path+"/%s:null-or-unknown-branch-not-held", !held) } }`,
					s.Attr, vt, s.Oneof.GoName, g.TQ, s.Wrapper, s.Attr)
			}
			continue
		}
		n := s.Attr
		x := "p" + s.Access
		embOr := ""
		embAnd := ""
		if s.EmbedPtr != "" {
			embOr = "p" + s.EmbedPtr + " == nil || "
			embAnd = "p" + s.EmbedPtr + " != nil && "
		}
		switch s.Kind {
		case SScalar:
			z := zeroExpr(s.Leaf, x)
			if s.Leaf.Ptr {
				z = "(" + x + " == nil)"
			}
			w(`{ v, _ := tf.Attrs[%q].(%s); if v.Null || v.Unknown { vrt.Assert("C05/"+path+"/%s:reset", %s%s) } else {`, n, g.tfv(s.Leaf.TFVal), n, embOr, z)
			// C02: reading a known value changes exactly the field this attribute is named after
			if s.Leaf.Ptr {
				w(`  vrt.Assert("C02/"+path+"/%s:field-carries-its-attribute", %s%s != nil && %s) } }`, n, embAnd, x, leafEq(s.Leaf, "*"+x, g.fromTF(s.Leaf, "v.Value")))
			} else {
				w(`  vrt.Assert("C02/"+path+"/%s:field-carries-its-attribute", %s%s) } }`, n, embAnd, leafEq(s.Leaf, x, g.fromTF(s.Leaf, "v.Value")))
			}
		case SList, SMap:
			ct := "types.List"
			if s.Kind == SMap {
				ct = "types.Map"
			}
			w(`{ c, _ := tf.Attrs[%q].(%s); if c.Null || c.Unknown { vrt.Assert("C05/"+path+"/%s:reset", %slen(%s) == 0) } }`, n, ct, n, embOr, x)
		case SMsgList:
			w(`{ c, _ := tf.Attrs[%q].(types.List); if c.Null || c.Unknown { vrt.Assert("C05/"+path+"/%s:reset", %slen(%s) == 0) } else if %slen(%s) == len(c.Elems) {`, n, n, embOr, x, embAnd, x)
			w(`  for i := range c.Elems { e, _ := c.Elems[i].(types.Object)`)
			if s.SubPtr {
				w(`    if e.Null || e.Unknown { vrt.Assert("C05/"+path+"/%s[]:reset", %s[i] == nil) } else if %s[i] != nil { resetCheck_%s(e, %s[i], path+"/%s[]") }`, n, x, x, s.Sub.ID, x, n)
			} else {
				w(`    if !e.Null && !e.Unknown { resetCheck_%s(e, &%s[i], path+"/%s[]") }`, s.Sub.ID, x, n)
			}
			w(`  } } }`)
		case SMsgMap:
			w(`{ c, _ := tf.Attrs[%q].(types.Map); if c.Null || c.Unknown { vrt.Assert("C05/"+path+"/%s:reset", %slen(%s) == 0) } }`, n, n, embOr, x)
		case SMsg:
			if s.SubPtr {
				w(`{ v, _ := tf.Attrs[%q].(types.Object); if v.Null || v.Unknown { vrt.Assert("C05/"+path+"/%s:reset", %s%s == nil) } else if %s%s != nil { resetCheck_%s(v, %s, path+"/%s") } }`, n, n, embOr, x, embAnd, x, s.Sub.ID, x, n)
			} else if s.EmbedPtr == "" {
				g.allZero(s.Sub)
				w(`{ v, _ := tf.Attrs[%q].(types.Object); if v.Null || v.Unknown { vrt.Assert("C05/"+path+"/%s:reset", allZero_%s(&%s)) } else { resetCheck_%s(v, &%s, path+"/%s") } }`, n, n, s.Sub.ID, x, s.Sub.ID, x, n)
			} else {
				// held by value inside a nullable embedded message: zero (or the embedded message is nil altogether)
				g.allZero(s.Sub)
				w(`{ v, _ := tf.Attrs[%q].(types.Object); if v.Null || v.Unknown { vrt.Assert("C05/"+path+"/%s:reset", %sallZero_%s(&%s)) } else if %strue { resetCheck_%s(v, &%s, path+"/%s") } }`, n, n, embOr, s.Sub.ID, x, embAnd, s.Sub.ID, x, n)
			}
		}
	}
	g.p("func resetCheck_%s(tf types.Object, p *%s%s, path string) {\n%s}\n", o.ID, g.TQ, o.MsgName, b.String())
	for _, s := range o.Slots {
		if s.Sub != nil && (s.Kind == SMsg || s.Kind == SMsgList) {
			g.resetCheck(s.Sub)
		}
	}
}

// ---------- C07 (from): the oneof holder follows the single known branch ----------

func hasOneofDeep(o *Occ, seen map[string]bool) bool {
	if seen[o.ID] {
		return false
	}
	seen[o.ID] = true
	for _, grp := range o.Oneofs {
		if len(grp.Slots) > 0 {
			return true
		}
	}
	for _, s := range o.Slots {
		if s.Sub != nil && hasOneofDeep(s.Sub, seen) {
			return true
		}
	}
	return false
}

func (g *Gen) oneofFrom(o *Occ) {
	if !g.once("oneofFrom_" + o.ID) {
		return
	}
	var b strings.Builder
	w := func(format string, a ...interface{}) { fmt.Fprintf(&b, "\t"+format+"\n", a...) }
	w("_, _ = tf, p")
	for _, grp := range o.Oneofs {
		if len(grp.Slots) == 0 {
			continue
		}
		w("{ cnt := 0")
		for i, s := range grp.Slots {
			vt := "types.Object"
			if s.Kind == SScalar {
				vt = g.tfv(s.Leaf.TFVal)
			}
			if s.Kind == SCustom {
				w("  k%d := false", i)
				continue
			}
			w(`  v%d, _ := tf.Attrs[%q].(%s); k%d := !v%d.Null && !v%d.Unknown; if k%d { cnt++ }`, i, s.Attr, vt, i, i, i, i)
		}
		w(`  if cnt == 0 { vrt.Assert("C07/"+path+"/%s:none-known-nil", p.%s == nil) }`, grp.GoName, grp.GoName)
		for i, s := range grp.Slots {
			if s.Kind == SCustom {
				continue
			}
			w(`  if cnt == 1 && k%d { wv, ok := p.%s.(*%s%s); vrt.Assert("C07/"+path+"/%s:selected", ok); if ok {`, i, grp.GoName, g.TQ, s.Wrapper, s.Attr)
			switch s.Kind {
			case SScalar:
				if s.Leaf.Ptr {
					w(`    vrt.Assert("C07/"+path+"/%s:value", wv.%s != nil && %s)`, s.Attr, s.GoName, leafEq(s.Leaf, "*wv."+s.GoName, g.fromTF(s.Leaf, fmt.Sprintf("v%d.Value", i))))
				} else {
					w(`    vrt.Assert("C07/"+path+"/%s:value", %s)`, s.Attr, leafEq(s.Leaf, "wv."+s.GoName, g.fromTF(s.Leaf, fmt.Sprintf("v%d.Value", i))))
				}
			case SMsg:
				w(`    vrt.Assert("C07/"+path+"/%s:value", wv.%s != nil)`, s.Attr, s.GoName)
			}
			w(`  } }`)
		}
		w("}")
	}
	for _, s := range o.Slots {
		if s.Sub == nil || s.Oneof != nil || s.EmbedPtr != "" || !hasOneofDeep(s.Sub, map[string]bool{}) {
			continue
		}
		x := "p" + s.Access
		switch s.Kind {
		case SMsg:
			if s.SubPtr {
				w(`{ v, _ := tf.Attrs[%q].(types.Object); if !v.Null && !v.Unknown && %s != nil { oneofFrom_%s(v, %s, path+"/%s") } }`, s.Attr, x, s.Sub.ID, x, s.Attr)
			} else {
				w(`{ v, _ := tf.Attrs[%q].(types.Object); if !v.Null && !v.Unknown { oneofFrom_%s(v, &%s, path+"/%s") } }`, s.Attr, s.Sub.ID, x, s.Attr)
			}
		case SMsgList:
			w(`{ c, _ := tf.Attrs[%q].(types.List); if !c.Null && !c.Unknown && len(%s) == len(c.Elems) { for i := range c.Elems { e, _ := c.Elems[i].(types.Object); if !e.Null && !e.Unknown {`, s.Attr, x)
			if s.SubPtr {
				w(`  if %s[i] != nil { oneofFrom_%s(e, %s[i], path+"/%s[]") }`, x, s.Sub.ID, x, s.Attr)
			} else {
				w(`  oneofFrom_%s(e, &%s[i], path+"/%s[]")`, s.Sub.ID, x, s.Attr)
			}
			w(`} } } }`)
		}
	}
	g.p("func oneofFrom_%s(tf types.Object, p *%s%s, path string) {\n%s}\n", o.ID, g.TQ, o.MsgName, b.String())
	for _, s := range o.Slots {
		if s.Sub != nil && hasOneofDeep(s.Sub, map[string]bool{}) {
			g.oneofFrom(s.Sub)
		}
	}
}

func (g *Gen) harnessFrom(o *Occ) {
	g.havocMsg(o.Msg)
	g.attrTypes(o)
	g.havocTF(o)
	g.resetCheck(o)
	g.normEq(o)
	g.oneofFrom(o)
	name := "Harness_From_" + o.ID
	g.hs = append(g.hs, name)
	var ex strings.Builder
	for _, s := range o.Excluded {
		if strings.ContainsAny(s.GoType, "[]*") || s.F.GetType() == TMessage || s.F.GetType() == TBytes || s.F.OneofIndex != nil {
			continue // (an excluded oneof branch lives in its wrapper, not in a struct field)
		}
		fmt.Fprintf(&ex, "\tvrt.Assert(\"C05/%s/%s:excluded-untouched\", p.%s == p0.%s)\n", o.ID, s.GoName, s.GoName, s.GoName)
	}
	g.p(`func %s() {
	ctx := context.Background()
	tfa, tfb := havocTF_%s(tfOpt{})
	var p, q, r %s%s
	havoc_%s(&p)
	havoc_%s(&q)
	havoc_%s(&r)
	p0 := p
	_ = p0
	d1 := %sCopy%sFromTerraform(ctx, tfa, &p)
	d2 := %sCopy%sFromTerraform(ctx, tfa, &q)
	d3 := %sCopy%sFromTerraform(ctx, tfb, &r)
	vrt.CheckNoPanic("C05/%s/copyfrom:no-panic")
	vrt.Assert("C05/%s/copyfrom:no-error-diagnostic", !d1.HasError() && !d2.HasError())
	vrt.Assert("C05/%s/copyfrom-payload:no-error-diagnostic", !d3.HasError())
	resetCheck_%s(tfa, &p, %q)
	normEq_%s(&p, &q, "C05/prior-independent/", "C05/prior-independent/", %q)
	normEq_%s(&p, &r, "C05/payload-independent/", "C05/payload-independent/", %q)
%s	oneofFrom_%s(tfa, &p, %q)
	vrt.Reach("From/%s/end")
}
`, name, o.ID, g.TQ, o.MsgName, o.MsgName, o.MsgName, o.MsgName,
		g.FQ, o.MsgName, g.FQ, o.MsgName, g.FQ, o.MsgName, o.ID, o.ID, o.ID, o.ID, o.ID, o.ID, o.ID, o.ID, o.ID, ex.String(), o.ID, o.ID, o.ID)
}

// ---------- C08: apply echo ----------

func (g *Gen) echo(o *Occ) {
	if !g.once("echo_" + o.ID) {
		return
	}
	var b strings.Builder
	w := func(format string, a ...interface{}) { fmt.Fprintf(&b, "\t"+format+"\n", a...) }
	w("_, _, _ = x, y, top")
	// x = plan before, y = after CopyFrom;CopyTo. top: outside list/map elements.
	leaf := func(l *Leaf, xa, ya, lab, ind string) {
		vt := g.tfv(l.TFVal)
		w(ind+`{ a, _ := %s.(%s); b, ok := %s.(%s); vrt.Assert("C08/"+%s+":type", ok); vrt.Assert("C08/"+%s+":known-after", !b.Unknown)`, xa, vt, ya, vt, lab, lab)
		w(ind+`  if top && !a.Unknown { vrt.Assert("C08/"+%s+":null-kept", a.Null == b.Null); if !a.Null && !b.Null { vrt.Assert("C08/"+%s+":value-kept", %s) } } }`, lab, lab, tfLeafEq(l, "a.Value", "b.Value"))
	}
	obj := func(sub *Occ, xa, ya, lab, ind, top string) {
		w(ind+`{ a, _ := %s.(types.Object); b, ok := %s.(types.Object); vrt.Assert("C08/"+%s+":type", ok); vrt.Assert("C08/"+%s+":known-after", !b.Unknown)`, xa, ya, lab, lab)
		w(ind+`  if %s && !a.Unknown { vrt.Assert("C08/"+%s+":null-kept", a.Null == b.Null) }`, top, lab)
		w(ind+`  if !b.Null { sub := %s && !a.Unknown && !a.Null; if !sub { a = types.Object{} }; echo_%s(a, b, %s, sub) } }`, top, sub.ID, lab)
	}
	if o.Empty {
		leaf(&Leaf{TFVal: "types.Bool", ValGo: "bool"}, `x.Attrs["active"]`, `y.Attrs["active"]`, `path+"/active"`, "")
	}
	for _, s := range o.Slots {
		n := s.Attr
		lab := fmt.Sprintf(`path+"/%s"`, n)
		xa, ya := fmt.Sprintf("x.Attrs[%q]", n), fmt.Sprintf("y.Attrs[%q]", n)
		switch s.Kind {
		case SScalar:
			leaf(s.Leaf, xa, ya, lab, "")
		case SMsg:
			obj(s.Sub, xa, ya, lab, "", "top")
		case SList, SMsgList:
			w(`{ a, _ := %s.(types.List); b, ok := %s.(types.List); vrt.Assert("C08/"+%s+":type", ok); vrt.Assert("C08/"+%s+":known-after", !b.Unknown)`, xa, ya, lab, lab)
			w(`  if top && !a.Unknown { vrt.Assert("C08/"+%s+":null-kept", a.Null == b.Null); if !a.Null { vrt.Assert("C08/"+%s+":len-kept", len(a.Elems) == len(b.Elems)) } }`, lab, lab)
			w(`  if !b.Null { for i := range b.Elems {`)
			if s.Kind == SList {
				w(`    e, ok := b.Elems[i].(%s); vrt.Assert("C08/"+%s+"[]:type", ok); vrt.Assert("C08/"+%s+"[]:known-after", !e.Unknown)`, g.tfv(s.Leaf.TFVal), lab, lab)
			} else {
				w(`    e, ok := b.Elems[i].(types.Object); vrt.Assert("C08/"+%s+"[]:type", ok); vrt.Assert("C08/"+%s+"[]:known-after", !e.Unknown)`, lab, lab)
				w(`    if ok && !e.Null { echo_%s(types.Object{}, e, %s+"[]", false) }`, s.Sub.ID, lab)
			}
			w(`  } } }`)
		case SMap, SMsgMap:
			w(`{ a, _ := %s.(types.Map); b, ok := %s.(types.Map); vrt.Assert("C08/"+%s+":type", ok); vrt.Assert("C08/"+%s+":known-after", !b.Unknown)`, xa, ya, lab, lab)
			w(`  if top && !a.Unknown { vrt.Assert("C08/"+%s+":null-kept", a.Null == b.Null); if !a.Null { vrt.Assert("C08/"+%s+":len-kept", len(a.Elems) == len(b.Elems)); for k := range a.Elems { _, ok := b.Elems[k]; vrt.Assert("C08/"+%s+":key-kept", ok) } } }`, lab, lab, lab)
			w(`  if !b.Null { for _, ev := range b.Elems {`)
			if s.Kind == SMap {
				w(`    e, ok := ev.(%s); vrt.Assert("C08/"+%s+"[]:type", ok); vrt.Assert("C08/"+%s+"[]:known-after", !e.Unknown)`, g.tfv(s.Leaf.TFVal), lab, lab)
			} else {
				w(`    e, ok := ev.(types.Object); vrt.Assert("C08/"+%s+"[]:type", ok); vrt.Assert("C08/"+%s+"[]:known-after", !e.Unknown)`, lab, lab)
				w(`    if ok && !e.Null { echo_%s(types.Object{}, e, %s+"[]", false) }`, s.Sub.ID, lab)
			}
			w(`  } } }`)
		}
	}
	g.p("func echo_%s(x, y types.Object, path string, top bool) {\n%s}\n", o.ID, b.String())
	for _, s := range o.Slots {
		if s.Sub != nil {
			g.echo(s.Sub)
		}
	}
}

func (g *Gen) harnessEcho(o *Occ) {
	g.havocMsg(o.Msg)
	g.attrTypes(o)
	g.havocTF(o)
	g.cloneTF(o)
	g.echo(o)
	g.normEq(o)
	name := "Harness_Echo_" + o.ID
	g.hs = append(g.hs, name)
	g.p(`func %s() {
	ctx := context.Background()
	plan, _ := havocTF_%s(tfOpt{NoNullElems: true, InRange: true, OneBranch: true})
	before := cloneTF_%s(plan)
	var s %s%s
	d1 := %sCopy%sFromTerraform(ctx, plan, &s)
	d2 := %sCopy%sToTerraform(ctx, &s, &plan)
	vrt.CheckNoPanic("C08/%s/echo:no-panic")
	vrt.Assert("C08/%s/echo:no-error-diagnostic", !d1.HasError() && !d2.HasError())
	echo_%s(before, plan, %q, true)
	var s2 %s%s
	d3 := %sCopy%sFromTerraform(ctx, plan, &s2)
	vrt.Assert("C08/%s/decode-again:no-error-diagnostic", !d3.HasError())
	normEq_%s(&s, &s2, "C08/decode-again/", "C08/decode-again/", %q)
	vrt.Reach("Echo/%s/end")
}
`, name, o.ID, o.ID, g.TQ, o.MsgName, g.FQ, o.MsgName, g.FQ, o.MsgName, o.ID, o.ID, o.ID, o.ID, g.TQ, o.MsgName, g.FQ, o.MsgName, o.ID, o.ID, o.ID, o.ID)
}

// ---------- C09: refresh ----------

func (g *Gen) follows(o *Occ) {
	if !g.once("follows_" + o.ID) {
		return
	}
	var b strings.Builder
	w := func(format string, a ...interface{}) { fmt.Fprintf(&b, "\t"+format+"\n", a...) }
	w("_, _, _ = s1, tf, b")
	// s1 = state after the first CopyTo, tf = after the second, b = second source
	elemLeaf := func(l *Leaf, ev, src, lab, ind string) {
		vt := g.tfv(l.TFVal)
		if l.Ptr {
			w(ind+`{ e, ok := %s.(%s); vrt.Assert("C09/"+%s+":type", ok); vrt.Assert("C09/"+%s+":known", !e.Unknown); vrt.Assert("C09/"+%s+":null-iff-nil", e.Null == (%s == nil)); if %s != nil && !e.Null { vrt.Assert("C09/"+%s+":value", %s) } }`,
				ev, vt, lab, lab, lab, src, src, lab, tfLeafEq(l, "e.Value", toTF(l, "*"+src)))
			return
		}
		if l.HasZero {
			w(ind+`{ e, ok := %s.(%s); vrt.Assert("C09/"+%s+":type", ok); vrt.Assert("C09/"+%s+":known", !e.Unknown); vrt.Assert("C09/"+%s+":value", (e.Null && %s) || (!e.Null && %s)) }`,
				ev, vt, lab, lab, lab, zeroExpr(l, src), tfLeafEq(l, "e.Value", toTF(l, src)))
		} else {
			w(ind+`{ e, ok := %s.(%s); vrt.Assert("C09/"+%s+":type", ok); vrt.Assert("C09/"+%s+":known", !e.Unknown); vrt.Assert("C09/"+%s+":value", !e.Null && %s) }`,
				ev, vt, lab, lab, lab, tfLeafEq(l, "e.Value", toTF(l, src)))
		}
	}
	if o.Empty {
		w(`{ v, _ := tf.Attrs["active"].(types.Bool); vrt.Assert("C09/"+path+"/active:known", !v.Unknown) }`)
	}
	for _, s := range o.Slots {
		n := s.Attr
		lab := fmt.Sprintf(`path+"/%s"`, n)
		x := "b" + s.Access
		if s.Oneof != nil {
			vt := "types.Object"
			if s.Kind == SScalar {
				vt = g.tfv(s.Leaf.TFVal)
			}
			if s.Kind != SCustom {
				w(`{ v, ok := tf.Attrs[%q].(%s); vrt.Assert("C09/"+%s+":type", ok); vrt.Assert("C09/"+%s+":known", !v.Unknown) }`, n, vt, lab, lab)
			}
			continue
		}
		embAnd := ""
		if s.EmbedPtr != "" {
			embAnd = "b" + s.EmbedPtr + " != nil && "
			// a nullable embedded message is flattened: when it is nil in the new source its attributes
			// follow it (null; a message held by value stays a non-null object), whatever the earlier state was
			switch {
			case s.Kind == SScalar:
				w(`if b%s == nil { v, _ := tf.Attrs[%q].(%s); vrt.Assert("C09/"+%s+":null-when-embedded-message-nil", v.Null && !v.Unknown) } else {`, s.EmbedPtr, n, g.tfv(s.Leaf.TFVal), lab)
			case s.Kind == SList || s.Kind == SMsgList:
				// (C09 states the length of a list, not its null-ness: an emptied list may stay a non-null empty list)
				w(`if b%s == nil { v, _ := tf.Attrs[%q].(types.List); vrt.Assert("C09/"+%s+":empty-when-embedded-message-nil", len(v.Elems) == 0 && !v.Unknown) } else {`, s.EmbedPtr, n, lab)
			case s.Kind == SMap || s.Kind == SMsgMap:
				w(`if b%s == nil { v, _ := tf.Attrs[%q].(types.Map); vrt.Assert("C09/"+%s+":empty-when-embedded-message-nil", len(v.Elems) == 0 && !v.Unknown) } else {`, s.EmbedPtr, n, lab)
			case s.Kind == SMsg && s.SubPtr:
				w(`if b%s == nil { v, _ := tf.Attrs[%q].(types.Object); vrt.Assert("C09/"+%s+":null-when-embedded-message-nil", v.Null && !v.Unknown) } else {`, s.EmbedPtr, n, lab)
			case s.Kind == SMsg:
				w(`if b%s == nil { v, _ := tf.Attrs[%q].(types.Object); vrt.Assert("C09/"+%s+":by-value-message-never-null", !v.Null && !v.Unknown) } else {`, s.EmbedPtr, n, lab)
			default:
				w(`if b%s != nil {`, s.EmbedPtr)
			}
		}
		switch s.Kind {
		case SScalar:
			vt := g.tfv(s.Leaf.TFVal)
			w(`{ v, ok := tf.Attrs[%q].(%s); o1, _ := s1.Attrs[%q].(%s); _ = o1; vrt.Assert("C09/"+%s+":type", ok); vrt.Assert("C09/"+%s+":known", !v.Unknown)`, n, vt, n, vt, lab, lab)
			switch {
			case s.Leaf.Ptr && s.EmbedPtr == "":
				w(`  vrt.Assert("C09/"+%s+":null-iff-nil", v.Null == (%s == nil)); if %s != nil { vrt.Assert("C09/"+%s+":value", %s) } }`, lab, x, x, lab, tfLeafEq(s.Leaf, "v.Value", toTF(s.Leaf, "*"+x)))
			case s.Leaf.Ptr:
				w(`  if %s%s != nil { vrt.Assert("C09/"+%s+":value", !v.Null && %s) } }`, embAnd, x, lab, tfLeafEq(s.Leaf, "v.Value", toTF(s.Leaf, "*"+x)))
			default:
				w(`  if %s!o1.Null { vrt.Assert("C09/"+%s+":value", %s) } }`, embAnd, lab, tfLeafEq(s.Leaf, "v.Value", toTF(s.Leaf, x)))
			}
		case SList, SMsgList:
			w(`{ c, ok := tf.Attrs[%q].(types.List); vrt.Assert("C09/"+%s+":type", ok); vrt.Assert("C09/"+%s+":known", !c.Unknown)`, n, lab, lab)
			w(`  vrt.Assert("C09/"+%s+":len", len(c.Elems) == len(%s))`, lab, x)
			w(`  for i := range %s { if i < len(c.Elems) {`, x)
			if s.Kind == SList {
				elemLeaf(s.Leaf, "c.Elems[i]", x+"[i]", lab+`+"[]"`, "    ")
			} else if s.SubPtr {
				w(`    e, ok := c.Elems[i].(types.Object); vrt.Assert("C09/"+%s+"[]:type", ok); vrt.Assert("C09/"+%s+"[]:known", !e.Unknown); vrt.Assert("C09/"+%s+"[]:null-iff-nil", e.Null == (%s[i] == nil)); if %s[i] != nil && !e.Null { follows_%s(e, e, %s[i], %s+"[]") }`, lab, lab, lab, x, x, s.Sub.ID, x, lab)
			} else {
				w(`    e, ok := c.Elems[i].(types.Object); vrt.Assert("C09/"+%s+"[]:type", ok); vrt.Assert("C09/"+%s+"[]:known", !e.Unknown); vrt.Assert("C09/"+%s+"[]:nonnull", !e.Null); if !e.Null { follows_%s(e, e, &%s[i], %s+"[]") }`, lab, lab, lab, s.Sub.ID, x, lab)
			}
			w(`  } } }`)
		case SMap, SMsgMap:
			w(`{ c, ok := tf.Attrs[%q].(types.Map); vrt.Assert("C09/"+%s+":type", ok); vrt.Assert("C09/"+%s+":known", !c.Unknown)`, n, lab, lab)
			w(`  vrt.Assert("C09/"+%s+":keyset-size", len(c.Elems) == len(%s))`, lab, x)
			w(`  for k, sv := range %s { ev, ok := c.Elems[k]; _ = sv; vrt.Assert("C09/"+%s+":has-source-key", ok); if ok {`, x, lab)
			if s.Kind == SMap {
				elemLeaf(s.Leaf, "ev", "sv", lab+`+"[]"`, "    ")
			} else if s.SubPtr {
				w(`    e, ok := ev.(types.Object); vrt.Assert("C09/"+%s+"[]:type", ok); vrt.Assert("C09/"+%s+"[]:known", !e.Unknown); vrt.Assert("C09/"+%s+"[]:null-iff-nil", e.Null == (sv == nil)); if sv != nil && !e.Null { follows_%s(e, e, sv, %s+"[]") }`, lab, lab, lab, s.Sub.ID, lab)
			} else {
				w(`    e, ok := ev.(types.Object); vrt.Assert("C09/"+%s+"[]:type", ok); vrt.Assert("C09/"+%s+"[]:known", !e.Unknown); if !e.Null { svv := sv; follows_%s(e, e, &svv, %s+"[]") }`, lab, lab, s.Sub.ID, lab)
			}
			w(`  } } }`)
		case SMsg:
			w(`{ v, ok := tf.Attrs[%q].(types.Object); o1, _ := s1.Attrs[%q].(types.Object); vrt.Assert("C09/"+%s+":type", ok); vrt.Assert("C09/"+%s+":known", !v.Unknown)`, n, n, lab, lab)
			if s.SubPtr {
				w(`  if %s == nil { vrt.Assert("C09/"+%s+":nil-source-null", v.Null) } else if !v.Null { if o1.Null { o1 = v }; follows_%s(o1, v, %s, %s) } }`, x, lab, s.Sub.ID, x, lab)
			} else {
				w(`  if !v.Null { if o1.Null { o1 = v }; follows_%s(o1, v, &%s, %s) } }`, s.Sub.ID, x, lab)
			}
		}
		if s.EmbedPtr != "" {
			w("}")
		}
	}
	g.p("func follows_%s(s1, tf types.Object, b *%s%s, path string) {\n%s}\n", o.ID, g.TQ, o.MsgName, b.String())
	for _, s := range o.Slots {
		if s.Sub != nil {
			g.follows(s.Sub)
		}
	}
}

func (g *Gen) harnessRefresh(o *Occ) {
	g.havocMsg(o.Msg)
	g.attrTypes(o)
	g.cloneTF(o)
	g.tfEq(o)
	g.follows(o)
	name := "Harness_Refresh_" + o.ID
	g.hs = append(g.hs, name)
	g.p(`func %s() {
	ctx := context.Background()
	var a, b %s%s
	havoc_%s(&a)
	havoc_%s(&b)
	tf := types.Object{AttrTypes: attrTypes_%s()}
	d1 := %sCopy%sToTerraform(ctx, &a, &tf)
	s1 := cloneTF_%s(tf)
	d2 := %sCopy%sToTerraform(ctx, &b, &tf)
	vrt.CheckNoPanic("C09/%s/refresh:no-panic")
	vrt.Assert("C09/%s/refresh:no-error-diagnostic", !d1.HasError() && !d2.HasError())
	follows_%s(s1, tf, &b, %q)
	s2 := cloneTF_%s(tf)
	d3 := %sCopy%sToTerraform(ctx, &b, &tf)
	vrt.Assert("C09/%s/repeat:no-error-diagnostic", !d3.HasError())
	tfEq_%s(s2, tf, "C09/idempotent/", %q)
	vrt.Reach("Refresh/%s/end")
}
`, name, g.TQ, o.MsgName, o.MsgName, o.MsgName, o.ID, g.FQ, o.MsgName, o.ID, g.FQ, o.MsgName, o.ID, o.ID, o.ID, o.ID, o.ID, g.FQ, o.MsgName, o.ID, o.ID, o.ID, o.ID)
}
