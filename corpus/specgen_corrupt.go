package main

// specgen, C06: malformed input becomes diagnostics, never a panic.
// CopyFrom: a conforming, fully known object is corrupted at every depth
// (attribute deleted / replaced by a value of another dynamic type / nil
// interface; list elements likewise; nested Attrs container nil).
// CopyTo: attribute types are removed at every object level.

import (
	"fmt"
	"strings"
)

func wrongValue(s *Slot) string {
	// a value whose dynamic type is never the expected one
	if s.Kind == SScalar && s.Leaf.TFVal == "types.Bool" {
		return "types.String{Value: \"wrong\"}"
	}
	return "types.Bool{Value: true}"
}

const corruptHelpers = `
func countReadMissing(d diag.Diagnostics, path string) int {
	n := 0
	for _, x := range d {
		if m, ok := x.(attrReadMissingDiag); ok && m.Path == path {
			n++
		}
	}
	return n
}

func countReadConversion(d diag.Diagnostics, path string) int {
	n := 0
	for _, x := range d {
		if m, ok := x.(attrReadConversionFailureDiag); ok && m.Path == path {
			n++
		}
	}
	return n
}

func countWriteMissing(d diag.Diagnostics, path string) int {
	n := 0
	for _, x := range d {
		if m, ok := x.(attrWriteMissingDiag); ok && m.Path == path {
			n++
		}
	}
	return n
}
`

func (g *Gen) corrupt(o *Occ) {
	if !g.once("corrupt_" + o.ID) {
		return
	}
	var b strings.Builder
	w := func(format string, a ...interface{}) { fmt.Fprintf(&b, "\t"+format+"\n", a...) }
	w("_ = path")
	w("if o.Attrs == nil { o.Attrs = map[string]attr.Value{} } // stand-in objects of absent list elements")
	for _, s := range o.Slots {
		if s.Kind == SCustom {
			continue
		}
		n := s.Attr
		w(`{ key := path + "/%s"; ch := vrt.Len(3); cz[key] = ch`, n)
		switch s.Kind {
		case SMsg:
			w(`  sub, _ := o.Attrs[%q].(types.Object); na := vrt.Bool(); cz[key+":nilattrs"] = 0; corrupt_%s(&sub, cz, key); if na { sub.Attrs = nil; cz[key+":nilattrs"] = 1 }; o.Attrs[%q] = sub`, n, s.Sub.ID, n)
		case SList, SMsgList:
			w(`  c, _ := o.Attrs[%q].(types.List)`, n)
			w(`  for i := 0; i < %d; i++ { ek := key + "[" + strconv.Itoa(i) + "]"; ec := vrt.Len(2); cz[ek] = ec`, g.KL)
			if s.Kind == SMsgList {
				w(`    var sub types.Object; if i < len(c.Elems) { sub, _ = c.Elems[i].(types.Object) }; corrupt_%s(&sub, cz, ek); if i < len(c.Elems) { c.Elems[i] = sub }`, s.Sub.ID)
			}
			w(`    if i < len(c.Elems) { switch ec { case 1: c.Elems[i] = %s; case 2: c.Elems[i] = nil } }`, wrongValue(&Slot{Kind: SScalar, Leaf: &Leaf{TFVal: elemTFVal(s)}}))
			w(`  }`)
			w(`  o.Attrs[%q] = c`, n)
		}
		w(`  switch ch { case 1: delete(o.Attrs, %q); case 2: o.Attrs[%q] = %s; case 3: o.Attrs[%q] = nil }`, n, n, wrongValue(s), n)
		w(`}`)
	}
	g.p("func corrupt_%s(o *types.Object, cz map[string]int, path string) {\n%s}\n", o.ID, b.String())
	for _, s := range o.Slots {
		if s.Sub != nil && (s.Kind == SMsg || s.Kind == SMsgList) {
			g.corrupt(s.Sub)
		}
	}
}

func elemTFVal(s *Slot) string {
	if s.Leaf != nil {
		return s.Leaf.TFVal
	}
	return "types.Object"
}

// corruptCheck: diagnostics expected for the corruption recorded in cz, for attributes whose
// ancestors are intact (live); allMissing = the enclosing Attrs container is nil.
func (g *Gen) corruptCheck(o *Occ) {
	if !g.once("corruptCheck_" + o.ID) {
		return
	}
	var b strings.Builder
	w := func(format string, a ...interface{}) { fmt.Fprintf(&b, "\t"+format+"\n", a...) }
	w("_, _, _, _ = d, live, allMissing, shared")
	for _, s := range o.Slots {
		if s.Kind == SCustom {
			continue
		}
		n := s.Attr
		w(`{ key := path + "/%s"; ch := cz[key]; missing := live && (ch == 1 || allMissing); wrong := live && !allMissing && (ch == 2 || ch == 3); intact := live && !allMissing && ch == 0; _, _, _ = missing, wrong, intact`, n)
		w(`  nm := countReadMissing(d, %q); nc := countReadConversion(d, %q)`, s.Path, s.Path)
		w(`  if missing { vrt.Assert("C06/from/"+key+":exactly-one-missing-diagnostic", nm == 1) }`)
		w(`  if wrong { vrt.Assert("C06/from/"+key+":conversion-diagnostic", nc >= 1) }`)
		switch s.Kind {
		case SMsg:
			w(`  if intact { sub0, _ := tf0.Attrs[%q].(types.Object); corruptCheck_%s(d, cz, key, true, cz[key+":nilattrs"] == 1, sub0, shared) }`, n, s.Sub.ID)
		case SList, SMsgList:
			w(`  if intact { anyBad := false; c, _ := tf0.Attrs[%q].(types.List)`, n)
			w(`    for i := 0; i < %d; i++ { ek := key + "[" + strconv.Itoa(i) + "]"; if i < len(c.Elems) && cz[ek] != 0 { anyBad = true }`, g.KL)
			if s.Kind == SMsgList {
				w(`      if i < len(c.Elems) && cz[ek] == 0 { e0, _ := c.Elems[i].(types.Object); corruptCheck_%s(d, cz, ek, true, false, e0, true) }`, s.Sub.ID)
			}
			w(`    }`)
			w(`    if anyBad { vrt.Assert("C06/from/"+key+":element-conversion-diagnostic", nc >= 1) }`)
			if s.Kind == SList {
				w(`    if !anyBad && !shared { vrt.Assert("C06/from/"+key+":no-diagnostic-when-intact", nc == 0 && nm == 0) }`)
			}
			w(`  }`)
		default:
			w(`  if intact && !shared { vrt.Assert("C06/from/"+key+":no-diagnostic-when-intact", nc == 0 && nm == 0) }`)
		}
		w(`}`)
	}
	g.p("func corruptCheck_%s(d diag.Diagnostics, cz map[string]int, path string, live, allMissing bool, tf0 types.Object, shared bool) {\n\t_ = tf0\n%s}\n", o.ID, b.String())
	for _, s := range o.Slots {
		if s.Sub != nil && (s.Kind == SMsg || s.Kind == SMsgList) {
			g.corruptCheck(s.Sub)
		}
	}
}

// stillCopied: every intact attribute under intact parents is copied exactly as in the run on the
// uncorrupted object.
func (g *Gen) stillCopied(o *Occ) {
	if !g.once("stillCopied_" + o.ID) {
		return
	}
	var b strings.Builder
	w := func(format string, a ...interface{}) { fmt.Fprintf(&b, "\t"+format+"\n", a...) }
	w("_, _ = p, p0")
	for _, s := range o.Slots {
		if s.Kind == SCustom || s.Oneof != nil || s.EmbedPtr != "" {
			continue
		}
		n := s.Attr
		x, x0 := "p"+s.Access, "p0"+s.Access
		w(`{ key := path + "/%s"; if cz[key] == 0 {`, n)
		switch s.Kind {
		case SScalar:
			if s.Leaf.Ptr {
				w(`  vrt.Assert("C06/from/"+key+":still-copied", (%s == nil) == (%s == nil)); if %s != nil && %s != nil { vrt.Assert("C06/from/"+key+":still-copied", %s) }`, x, x0, x, x0, leafEq(s.Leaf, "*"+x, "*"+x0))
			} else {
				w(`  vrt.Assert("C06/from/"+key+":still-copied", %s)`, leafEq(s.Leaf, x, x0))
			}
		case SList:
			w(`  vrt.Assert("C06/from/"+key+":still-copied-len", len(%s) == len(%s))`, x, x0)
			if !s.Leaf.Ptr {
				w(`  for i := range %s { if i < len(%s) && i < %d && cz[key+"["+strconv.Itoa(i)+"]"] == 0 { vrt.Assert("C06/from/"+key+":still-copied-element", %s) } }`, x0, x, g.KL, leafEq(s.Leaf, x+"[i]", x0+"[i]"))
			}
		case SMap, SMsgMap:
			w(`  vrt.Assert("C06/from/"+key+":still-copied-len", len(%s) == len(%s))`, x, x0)
		case SMsg:
			if s.SubPtr {
				w(`  vrt.Assert("C06/from/"+key+":still-copied", (%s == nil) == (%s == nil)); if %s != nil && %s != nil && cz[key+":nilattrs"] == 0 { stillCopied_%s(%s, %s, cz, key) }`, x, x0, x, x0, s.Sub.ID, x, x0)
			} else {
				w(`  if cz[key+":nilattrs"] == 0 { stillCopied_%s(&%s, &%s, cz, key) }`, s.Sub.ID, x, x0)
			}
		case SMsgList:
			w(`  vrt.Assert("C06/from/"+key+":still-copied-len", len(%s) == len(%s))`, x, x0)
		}
		w(`} }`)
	}
	g.p("func stillCopied_%s(p, p0 *%s%s, cz map[string]int, path string) {\n%s}\n", o.ID, g.TQ, o.MsgName, b.String())
	for _, s := range o.Slots {
		if s.Sub != nil && s.Kind == SMsg {
			g.stillCopied(s.Sub)
		}
	}
}

// ---------- CopyTo with attribute types removed ----------

func (g *Gen) corruptTypes(o *Occ) {
	if !g.once("corruptTypes_" + o.ID) {
		return
	}
	var b strings.Builder
	w := func(format string, a ...interface{}) { fmt.Fprintf(&b, "\t"+format+"\n", a...) }
	w("m := map[string]attr.Type{}")
	if o.Empty {
		// the placeholder attribute of a field-less message has an attribute type like any other
		w(`{ key := path + "/active"; rm := vrt.Bool(); cz[key] = 0; if rm { cz[key] = 1 } else { m["active"] = types.BoolType } }`)
	}
	for _, inj := range o.Injected {
		w(`m[%q] = %s`, inj.Name, injectedTypeExpr(inj.Type))
	}
	for _, s := range o.Slots {
		n := s.Attr
		w(`{ key := path + "/%s"; rm := vrt.Bool(); cz[key] = 0; if rm { cz[key] = 1 }`, n)
		switch s.Kind {
		case SMsg:
			w(`  t := types.ObjectType{AttrTypes: corruptTypes_%s(cz, key)}; if !rm { m[%q] = t } }`, s.Sub.ID, n)
		case SMsgList:
			w(`  t := types.ListType{ElemType: types.ObjectType{AttrTypes: corruptTypes_%s(cz, key+"[]")}}; if !rm { m[%q] = t } }`, s.Sub.ID, n)
		case SMsgMap:
			w(`  t := types.MapType{ElemType: types.ObjectType{AttrTypes: corruptTypes_%s(cz, key+"[]")}}; if !rm { m[%q] = t } }`, s.Sub.ID, n)
		default:
			w(`  if !rm { m[%q] = %s } }`, n, g.slotTypeExpr(s))
		}
	}
	w("return m")
	g.p("func corruptTypes_%s(cz map[string]int, path string) map[string]attr.Type {\n%s}\n", o.ID, b.String())
	for _, s := range o.Slots {
		if s.Sub != nil {
			g.corruptTypes(s.Sub)
		}
	}
}

// typesCheck: one write-missing diagnostic per removed-and-needed type; `needed` = the source reaches it.
func (g *Gen) typesCheck(o *Occ) {
	if !g.once("typesCheck_" + o.ID) {
		return
	}
	var b strings.Builder
	w := func(format string, a ...interface{}) { fmt.Fprintf(&b, "\t"+format+"\n", a...) }
	w("_, _, _, _ = d, tf, tfi, p")
	if o.Empty {
		w(`{ key := path + "/active"; nm := countWriteMissing(d, %q)`, o.Path+".active")
		w(`  if needed && cz[key] == 1 { vrt.Assert("C06/to/"+key+":exactly-one-missing-diagnostic", nm == 1); _, has := tf.Attrs["active"]; vrt.Assert("C06/to/"+key+":not-written", !has) }`)
		w(`  if needed && cz[key] == 0 { _, has := tf.Attrs["active"]; vrt.Assert("C06/to/"+key+":still-written", has) } }`)
	}
	for _, s := range o.Slots {
		n := s.Attr
		x := "p" + s.Access
		if s.EmbedPtr != "" || s.Oneof != nil {
			// reached in every case (the generated code reads them through an empty stand-in)
		}
		w(`{ key := path + "/%s"; nm := countWriteMissing(d, %q)`, n, s.Path)
		w(`  if needed && cz[key] == 1 { vrt.Assert("C06/to/"+key+":exactly-one-missing-diagnostic", nm == 1); _, has := tf.Attrs[%q]; vrt.Assert("C06/to/"+key+":not-written", !has) }`, n)
		w(`  if needed && cz[key] == 0 { _, has := tf.Attrs[%q]; vrt.Assert("C06/to/"+key+":still-written", has)`, n)
		switch s.Kind {
		case SMsg:
			if s.EmbedPtr == "" && s.Oneof == nil {
				if s.SubPtr {
					w(`    if v, ok := tf.Attrs[%q].(types.Object); ok && %s != nil { vi, _ := tfi.Attrs[%q].(types.Object); typesCheck_%s(d, cz, key, v, vi, %s, true) }`, n, x, n, s.Sub.ID, x)
				} else {
					w(`    if v, ok := tf.Attrs[%q].(types.Object); ok { vi, _ := tfi.Attrs[%q].(types.Object); typesCheck_%s(d, cz, key, v, vi, &%s, true) }`, n, n, s.Sub.ID, x)
				}
			}
		case SMsgList, SMsgMap:
			if s.EmbedPtr == "" && s.Oneof == nil {
				// element attribute types removed: one diagnostic per removed type when some element reaches it
				ct := "types.List"
				if s.Kind == SMsgMap {
					ct = "types.Map"
				}
				w(`    if c, ok := tf.Attrs[%q].(%s); ok { ci, _ := tfi.Attrs[%q].(%s); _ = ci; reached := false; var ev, eiv types.Object`, n, ct, n, ct)
				if s.Kind == SMsgList {
					w(`      for i := range %s { if i < len(c.Elems) && i < len(ci.Elems) { e, ok := c.Elems[i].(types.Object); ei, _ := ci.Elems[i].(types.Object); if ok && !e.Null && !reached { reached = true; ev, eiv = e, ei } } }`, x)
					if s.SubPtr {
						w(`      var src *%s%s; for i := range %s { if %s[i] != nil && src == nil { src = %s[i] } }`, g.TQ, s.Sub.MsgName, x, x, x)
					} else {
						w(`      var src *%s%s; for i := range %s { if src == nil { src = &%s[i] } }`, g.TQ, s.Sub.MsgName, x, x)
					}
				} else {
					w(`      for k := range %s { e, ok := c.Elems[k].(types.Object); ei, _ := ci.Elems[k].(types.Object); if ok && !e.Null && !reached { reached = true; ev, eiv = e, ei } }`, x)
					if s.SubPtr {
						w(`      var src *%s%s; for _, sv := range %s { if sv != nil && src == nil { src = sv } }`, g.TQ, s.Sub.MsgName, x)
					} else {
						w(`      var src *%s%s; for _, sv := range %s { if src == nil { svv := sv; src = &svv } }`, g.TQ, s.Sub.MsgName, x)
					}
				}
				w(`      if reached && src != nil { typesCheckElem_%s(d, cz, key+"[]", ev, eiv, src) } }`, s.Sub.ID)
			}
		case SScalar:
			// same value as in the run with every type present
			vt := g.tfv(s.Leaf.TFVal)
			w(`    a, ok1 := tf.Attrs[%q].(%s); bI, ok2 := tfi.Attrs[%q].(%s); if ok1 && ok2 { vrt.Assert("C06/to/"+key+":written-as-in-intact-run", a.Null == bI.Null && a.Unknown == bI.Unknown && (a.Null || %s)) }`, n, vt, n, vt, tfLeafEq(s.Leaf, "a.Value", "bI.Value"))
		}
		w(`  } }`)
	}
	g.p("func typesCheck_%s(d diag.Diagnostics, cz map[string]int, path string, tf, tfi types.Object, p *%s%s, needed bool) {\n%s}\n", o.ID, g.TQ, o.MsgName, b.String())
	for _, s := range o.Slots {
		if s.Sub != nil && s.Kind == SMsg {
			g.typesCheck(s.Sub)
		}
		if s.Sub != nil && (s.Kind == SMsgList || s.Kind == SMsgMap) && s.EmbedPtr == "" && s.Oneof == nil {
			g.typesCheckElem(s.Sub)
		}
	}
}

func (g *Gen) harnessCorrupt(o *Occ) {
	g.havocMsg(o.Msg)
	g.attrTypes(o)
	g.havocTF(o)
	g.cloneTF(o)
	g.corrupt(o)
	g.corruptCheck(o)
	g.stillCopied(o)
	g.corruptTypes(o)
	g.typesCheck(o)
	if g.once("corruptHelpers") {
		g.p("%s", corruptHelpers)
	}
	name := "Harness_CorruptFrom_" + o.ID
	g.hs = append(g.hs, name)
	g.p(`func %s() {
	ctx := context.Background()
	tf, _ := havocTF_%s(tfOpt{Known: true})
	tf0 := cloneTF_%s(tf)
	cz := map[string]int{}
	corrupt_%s(&tf, cz, %q)
	var p, p0 %s%s
	d := %sCopy%sFromTerraform(ctx, tf, &p)
	vrt.CheckNoPanic("C06/from/%s:no-panic")
	d0 := %sCopy%sFromTerraform(ctx, tf0, &p0)
	vrt.Assert("C06/from/%s:intact-run-no-diagnostic", len(d0) == 0)
	corruptCheck_%s(d, cz, %q, true, false, tf0, false)
	stillCopied_%s(&p, &p0, cz, %q)
	vrt.Reach("CorruptFrom/%s/end")
}
`, name, o.ID, o.ID, o.ID, o.ID, g.TQ, o.MsgName, g.FQ, o.MsgName, o.ID, g.FQ, o.MsgName, o.ID, o.ID, o.ID, o.ID, o.ID, o.ID)

	name2 := "Harness_CorruptTo_" + o.ID
	g.hs = append(g.hs, name2)
	g.p(`func %s() {
	ctx := context.Background()
	var obj %s%s
	havoc_%s(&obj)
	cz := map[string]int{}
	tf := types.Object{AttrTypes: corruptTypes_%s(cz, %q)}
	d := %sCopy%sToTerraform(ctx, &obj, &tf)
	vrt.CheckNoPanic("C06/to/%s:no-panic")
	tfi := types.Object{AttrTypes: attrTypes_%s()}
	di := %sCopy%sToTerraform(ctx, &obj, &tfi)
	vrt.Assert("C06/to/%s:intact-run-no-diagnostic", len(di) == 0)
	typesCheck_%s(d, cz, %q, tf, tfi, &obj, true)
	vrt.Reach("CorruptTo/%s/end")
}
`, name2, g.TQ, o.MsgName, o.MsgName, o.ID, o.ID, g.FQ, o.MsgName, o.ID, o.ID, g.FQ, o.MsgName, o.ID, o.ID, o.ID, o.ID)

	// CopyTo into a target as the framework decodes it from a state whose nested blocks are null or
	// unknown: the attribute holds an object value without an Attrs map. No panic, no error.
	var pre strings.Builder
	for _, s := range o.Slots {
		if s.Kind == SMsg && s.Sub != nil && s.EmbedPtr == "" {
			fmt.Fprintf(&pre, "\t{ nb, ub := vrt.Bool(), vrt.Bool(); if nb { tf.Attrs[%q] = types.Object{Null: !ub, Unknown: ub, AttrTypes: attrTypes_%s()} } }\n", s.Attr, s.Sub.ID)
		}
	}
	if pre.Len() > 0 {
		name3 := "Harness_CorruptToNullBlocks_" + o.ID
		g.hs = append(g.hs, name3)
		g.p(`func %s() {
	ctx := context.Background()
	var obj %s%s
	havoc_%s(&obj)
	tf := types.Object{AttrTypes: attrTypes_%s(), Attrs: map[string]attr.Value{}}
%s	d := %sCopy%sToTerraform(ctx, &obj, &tf)
	vrt.CheckNoPanic("C06/to-null-blocks/%s:no-panic")
	vrt.Assert("C06/to-null-blocks/%s:no-error-diagnostic", !d.HasError())
	vrt.Reach("CorruptToNullBlocks/%s/end")
}
`, name3, g.TQ, o.MsgName, o.MsgName, o.ID, pre.String(), g.FQ, o.MsgName, o.ID, o.ID, o.ID)
	}
}

// typesCheckElem: attribute types removed from a list / map element type: all elements share one path per
// field and Append de-duplicates, so a removed type gives exactly one diagnostic once an element reaches it.
func (g *Gen) typesCheckElem(o *Occ) {
	if !g.once("typesCheckElem_" + o.ID) {
		return
	}
	var b strings.Builder
	w := func(format string, a ...interface{}) { fmt.Fprintf(&b, "\t"+format+"\n", a...) }
	w("_, _, _, _ = d, tf, tfi, p")
	for _, s := range o.Slots {
		if s.Oneof != nil || s.EmbedPtr != "" {
			continue
		}
		w(`{ key := path + "/%s"; nm := countWriteMissing(d, %q); if cz[key] == 1 { vrt.Assert("C06/to/"+key+":exactly-one-missing-diagnostic", nm == 1) } else { vrt.Assert("C06/to/"+key+":no-missing-diagnostic-when-present", nm == 0) } }`, s.Attr, s.Path)
	}
	g.p("func typesCheckElem_%s(d diag.Diagnostics, cz map[string]int, path string, tf, tfi types.Object, p *%s%s) {\n%s}\n", o.ID, g.TQ, o.MsgName, b.String())
}
