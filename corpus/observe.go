package main

// Pipeline observations for C18 (accompanying the solver-decided kernels): descriptors with one
// unmappable field below a selected type are run through the real plugin and the set of emitted
// top-level functions and the logged warnings are reported.

import (
	"fmt"
	"go/ast"
	"go/parser"
	"go/token"
	"io/ioutil"
	"path/filepath"
	"strings"

	d "github.com/gogo/protobuf/protoc-gen-gogo/descriptor"
)

type Unsupported struct {
	Name    string
	File    func() *FileSpec
	Cfg     func() *Config
	Broken  []string // selected types that must not be generated
	Intact  []string // selected types that must be generated in full
	Exclude []string // exclude_fields entries that restore full generation of the broken types
}

func unsupported_() []*Unsupported {
	noTime := func(types ...string) func() *Config {
		return func() *Config { c := baseConfig(types...); c.TimeType = nil; return c }
	}
	noDur := func(types ...string) func() *Config {
		return func() *Config { c := baseConfig(types...); c.DurationType = nil; return c }
	}
	ok := func() *M { return msg("Ok", nil, fld("Str", TString), fld("Num", TInt64)) }
	last := func() *M { return msg("Zlast", nil, fld("Str", TString), mfld("O", "Ok")) }
	us := []*Unsupported{
		{Name: "U-time-depth0", Cfg: noTime("U", "Ok"), Broken: []string{"U"}, Intact: []string{"Ok"}, Exclude: []string{"U.Bad"},
			File: func() *FileSpec {
				return &FileSpec{Name: "p.proto", Msgs: []*M{ok(), msg("U", nil, fld("Str", TString), tsfld("Bad"), fld("After", TInt64))}}
			}},
		{Name: "U-time-depth1", Cfg: noTime("U", "Ok"), Broken: []string{"U"}, Intact: []string{"Ok"}, Exclude: []string{"U.Sub.Bad"},
			File: func() *FileSpec {
				return &FileSpec{Name: "p.proto", Msgs: []*M{ok(), msg("Inner", nil, fld("X", TString), tsfld("Bad").nonnull()), msg("U", nil, fld("Str", TString), mfld("Sub", "Inner"))}}
			}},
		{Name: "U-dur-depth2-list", Cfg: noDur("U", "Ok"), Broken: []string{"U"}, Intact: []string{"Ok"}, Exclude: []string{"Deep.Bad"},
			File: func() *FileSpec {
				return &FileSpec{Name: "p.proto", Msgs: []*M{ok(), msg("Deep", nil, fld("Bad", TInt64).stddur(), fld("Y", TString)), msg("Inner", nil, mfld("L", "Deep").rep()),
					msg("U", nil, mfld("Sub", "Inner").nonnull(), fld("Str", TString))}}
			}},
		{Name: "U-map-int-key", Cfg: func() *Config { return baseConfig("U", "Ok") }, Broken: []string{"U"}, Intact: []string{"Ok"}, Exclude: []string{"U.Bad"},
			File: func() *FileSpec {
				return &FileSpec{Name: "p.proto", Msgs: []*M{ok(), msg("U", nil, fld("Str", TString), mapfld("Bad", fld("v", TString)).key(TInt32))}}
			}},
		{Name: "U-map-value-time", Cfg: noTime("U", "Ok"), Broken: []string{"U"}, Intact: []string{"Ok"}, Exclude: []string{"U.Bad"},
			File: func() *FileSpec {
				return &FileSpec{Name: "p.proto", Msgs: []*M{ok(), msg("U", nil, fld("Str", TString), mapfld("Bad", tsfld("v")))}}
			}},
	}
	us = append(us,
		&Unsupported{Name: "U-time-below-nested-map", Cfg: noTime("U", "Ok"), Broken: []string{"U"}, Intact: []string{"Ok"}, Exclude: []string{"U.Sub.Items.Bad"},
			File: func() *FileSpec {
				return &FileSpec{Name: "p.proto", Msgs: []*M{ok(), msg("Deep", nil, fld("Y", TString), tsfld("Bad")), msg("Inner", nil, mapfld("Items", mfld("v", "Deep")), fld("X", TString)),
					msg("U", nil, mfld("Sub", "Inner"), fld("Str", TString))}}
			}},
		&Unsupported{Name: "U-dur-below-nested-list", Cfg: noDur("U", "Ok"), Broken: []string{"U"}, Intact: []string{"Ok"}, Exclude: []string{"U.Sub.Items.Bad"},
			File: func() *FileSpec {
				return &FileSpec{Name: "p.proto", Msgs: []*M{ok(), msg("Deep", nil, fld("Y", TString), dufld("Bad")), msg("Inner", nil, mfld("Items", "Deep").rep(), fld("X", TString)),
					msg("U", nil, mfld("Sub", "Inner").nonnull(), fld("Str", TString))}}
			}})
	// a map whose key is not a string stays unmappable whatever gogoproto cast options the field carries
	// (castkey / castvalue rename Go types, they do not make the key a string); also below a nested message
	us = append(us,
		&Unsupported{Name: "U-map-int-key-castkey", Cfg: func() *Config { return baseConfig("U", "Ok") }, Broken: []string{"U"}, Intact: []string{"Ok"}, Exclude: []string{"U.Bad"},
			File: func() *FileSpec {
				return &FileSpec{Name: "p.proto", Msgs: []*M{ok(), msg("U", nil, fld("Str", TString), mapfld("Bad", fld("v", TString)).key(TInt32).castkey("Code"))}}
			}},
		&Unsupported{Name: "U-map-int-key-castvalue", Cfg: func() *Config { return baseConfig("U", "Ok") }, Broken: []string{"U"}, Intact: []string{"Ok"}, Exclude: []string{"U.Bad"},
			File: func() *FileSpec {
				return &FileSpec{Name: "p.proto", Msgs: []*M{ok(), msg("U", nil, fld("Str", TString), mapfld("Bad", fld("v", TString)).key(TInt64).castvalue("Label"))}}
			}},
		&Unsupported{Name: "U-map-bool-key-castkey-depth1", Cfg: func() *Config { return baseConfig("U", "Ok") }, Broken: []string{"U"}, Intact: []string{"Ok"}, Exclude: []string{"U.Sub.Bad"},
			File: func() *FileSpec {
				return &FileSpec{Name: "p.proto", Msgs: []*M{ok(), msg("Inner", nil, fld("X", TString), mapfld("Bad", fld("v", TInt64)).key(TBool).castkey("Flag")),
					msg("U", nil, mfld("Sub", "Inner"), fld("Str", TString))}}
			}})
	// an embedded message whose only field is the unmappable one: excluded, the embed contributes no field at all
	us = append(us,
		&Unsupported{Name: "U-embed-only-bad-by-key", Cfg: noTime("U", "Ok"), Broken: []string{"U"}, Intact: []string{"Ok"}, Exclude: []string{"Stamp.At"},
			File: func() *FileSpec {
				return &FileSpec{Name: "p.proto", Msgs: []*M{ok(), msg("Stamp", nil, tsfld("At")), msg("U", nil, fld("Str", TString), mfld("Stamp", "Stamp").embed())}}
			}},
		&Unsupported{Name: "U-embed-only-bad-by-path", Cfg: noTime("U", "Ok"), Broken: []string{"U"}, Intact: []string{"Ok"}, Exclude: []string{"U.Holder.At"},
			File: func() *FileSpec {
				return &FileSpec{Name: "p.proto", Msgs: []*M{ok(), msg("Stamp", nil, tsfld("At")), msg("Hold", nil, mfld("Stamp", "Stamp").nonnull().embed(), fld("X", TString)),
					msg("U", nil, fld("Str", TString), mfld("Holder", "Hold"))}}
			}})
	// two selected types reach the same nested message with the unmappable field; the field is excluded
	// by path below one of them only: that one is generated whole, the other not at all
	shared := func() *FileSpec {
		return &FileSpec{Name: "p.proto", Msgs: []*M{ok(), msg("Shared", nil, fld("X", TString), tsfld("Bad")),
			msg("First", nil, fld("Str", TString), mfld("Shared", "Shared")), msg("Second", nil, mfld("Shared", "Shared"), fld("Num", TInt64))}}
	}
	us = append(us,
		&Unsupported{Name: "U-shared-excluded-below-second", Broken: []string{"First"}, Intact: []string{"Second", "Ok"}, Exclude: []string{"First.Shared.Bad"}, File: shared,
			Cfg: func() *Config { c := noTime("First", "Second", "Ok")(); c.ExcludeFields = []string{"Second.Shared.Bad"}; return c }},
		&Unsupported{Name: "U-shared-excluded-below-first", Broken: []string{"Second"}, Intact: []string{"First", "Ok"}, Exclude: []string{"Second.Shared.Bad"}, File: shared,
			Cfg: func() *Config { c := noTime("First", "Second", "Ok")(); c.ExcludeFields = []string{"First.Shared.Bad"}; return c }},
		&Unsupported{Name: "U-shared-both", Broken: []string{"First", "Second"}, Intact: []string{"Ok"}, Exclude: []string{"Shared.Bad"}, File: shared,
			Cfg: noTime("First", "Second", "Ok")})
	// the same shapes with a further selected type declared after the broken one
	var more []*Unsupported
	for _, u := range us {
		u := u
		cfg := u.Cfg
		file := u.File
		more = append(more, &Unsupported{Name: u.Name + "+later-type", Broken: u.Broken, Intact: append(append([]string{}, u.Intact...), "Zlast"), Exclude: u.Exclude,
			Cfg:  func() *Config { c := cfg(); c.Types = append(c.Types, "Zlast"); return c },
			File: func() *FileSpec { f := file(); f.Msgs = append(f.Msgs, last()); return f }})
	}
	return append(us, more...)
}

// Selection: a `types` selection over a corpus program; exactly the three functions of every selected
// type must be emitted, and none for any other message (C12).
type Selection struct {
	Base  string
	Types []string
}

func selections() []Selection {
	return []Selection{
		{"P-order", []string{"Leaf"}}, {"P-order", []string{"Top"}}, {"P-order", []string{"Top", "Leaf"}}, {"P-order", []string{"Top", "Mid", "Leaf"}},
		{"P-order", []string{"Leaf", "Mid"}}, {"P-multi", []string{"A"}}, {"P-multi", []string{"B", "A"}}, {"P-multi", []string{"A", "Shared"}},
		{"P-multi", []string{"Shared", "Mid"}}, {"P-nest", []string{"N1", "Inner", "Leaf"}}, {"P-oneof", []string{"O2", "O1"}}, {"P-oneof", []string{"O2"}},
		// messages embedded directly in a selected type (their fields carry the path of that type)
		{"P-embed", []string{"E1"}}, {"P-embed", []string{"E1", "Emb"}}, {"P-embed", []string{"E2", "EmbP"}}, {"P-embed-x", []string{"EX2"}},
		{"P-docs", []string{"Doc"}}, {"P-docs", []string{"DE1", "Doc"}},
	}
}

func observeSelection(sel Selection, pluginBin, out string) *Observation {
	name := "S-" + sel.Base + "-" + strings.Join(sel.Types, "+")
	o := &Observation{Name: name, Mode: "selection"}
	base := findProgram(sel.Base)
	cfg := base.Cfg()
	cfg.Types = sel.Types
	dir := filepath.Join(out, name)
	cfgPath := filepath.Join(dir, "cfg.yaml")
	writeFile(cfgPath, cfg.yaml())
	file := base.File().build()
	req := buildRequest(file, "config="+cfgPath)
	o.Request = filepath.Join(dir, "req.bin")
	writeFile(o.Request, req)
	logPath := filepath.Join(dir, "plugin.log")
	resp, err := runPlugin(pluginBin, req, logPath)
	if err != nil {
		o.PluginError = err.Error()
		o.Failures = append(o.Failures, "plugin failed: "+err.Error())
		return o
	}
	src := ""
	if len(resp.File) == 1 {
		src = resp.File[0].GetContent()
	}
	funcs, perr := topLevelFuncs(src)
	if perr != nil {
		o.Failures = append(o.Failures, "generated file does not parse: "+perr.Error())
		return o
	}
	o.Funcs = funcs
	want := map[string]bool{}
	for _, t := range sel.Types {
		for _, fn := range []string{"GenSchema" + t, "Copy" + t + "FromTerraform", "Copy" + t + "ToTerraform"} {
			want[fn] = true
			n := 0
			for _, f := range funcs {
				if f == fn {
					n++
				}
			}
			if n != 1 {
				o.Failures = append(o.Failures, fmt.Sprintf("%s is emitted %d times for the selection %v (want exactly once)", fn, n, sel.Types))
			}
		}
	}
	for _, f := range funcs {
		if !want[f] && (strings.HasPrefix(f, "GenSchema") || (strings.HasPrefix(f, "Copy") && strings.HasSuffix(f, "Terraform"))) {
			o.Failures = append(o.Failures, fmt.Sprintf("%s is emitted although its type is not selected (%v)", f, sel.Types))
		}
	}
	return o
}

func topLevelFuncs(src string) ([]string, error) {
	fs := token.NewFileSet()
	f, err := parser.ParseFile(fs, "gen.go", src, 0)
	if err != nil {
		return nil, err
	}
	var out []string
	for _, dcl := range f.Decls {
		if fd, ok := dcl.(*ast.FuncDecl); ok && fd.Recv == nil {
			out = append(out, fd.Name.Name)
		}
	}
	return out, nil
}

type Observation struct {
	Name        string   `json:"name"`
	Mode        string   `json:"mode"` // broken | excluded
	Funcs       []string `json:"funcs"`
	Log         string   `json:"log_tail"`
	Failures    []string `json:"failures"`
	Request     string   `json:"request"`
	PluginError string   `json:"plugin_error,omitempty"`
}

func observe(u *Unsupported, pluginBin, out string) []*Observation {
	var res []*Observation
	for _, mode := range []string{"broken", "excluded"} {
		o := &Observation{Name: u.Name, Mode: mode}
		res = append(res, o)
		cfg := u.Cfg()
		if mode == "excluded" {
			cfg.ExcludeFields = append(cfg.ExcludeFields, u.Exclude...)
		}
		dir := filepath.Join(out, u.Name+"-"+mode)
		cfgPath := filepath.Join(dir, "cfg.yaml")
		writeFile(cfgPath, cfg.yaml())
		var file *d.FileDescriptorProto = u.File().build()
		req := buildRequest(file, "config="+cfgPath)
		o.Request = filepath.Join(dir, "req.bin")
		writeFile(o.Request, req)
		logPath := filepath.Join(dir, "plugin.log")
		resp, err := runPlugin(pluginBin, req, logPath)
		lb, _ := ioutil.ReadFile(logPath)
		o.Log = tail(string(lb))
		if err != nil {
			o.PluginError = err.Error()
			o.Failures = append(o.Failures, "plugin failed instead of skipping the type: "+err.Error())
			continue
		}
		src := ""
		if len(resp.File) == 1 {
			src = resp.File[0].GetContent()
		}
		funcs, perr := topLevelFuncs(src)
		if perr != nil {
			o.Failures = append(o.Failures, "generated file does not parse: "+perr.Error())
			continue
		}
		o.Funcs = funcs
		has := func(n string) bool { return inList(funcs, n) }
		three := func(t string) []string { return []string{"GenSchema" + t, "Copy" + t + "FromTerraform", "Copy" + t + "ToTerraform"} }
		for _, t := range u.Intact {
			for _, fn := range three(t) {
				if !has(fn) {
					o.Failures = append(o.Failures, fmt.Sprintf("%s of the unaffected type %s is missing", fn, t))
				}
			}
		}
		for _, t := range u.Broken {
			for _, fn := range three(t) {
				if mode == "broken" && has(fn) {
					o.Failures = append(o.Failures, fmt.Sprintf("%s is emitted although a reachable field of %s cannot be mapped", fn, t))
				}
				if mode == "excluded" && !has(fn) {
					o.Failures = append(o.Failures, fmt.Sprintf("%s is missing although the offending field is excluded", fn))
				}
			}
			if mode == "broken" && !strings.Contains(string(lb), "failed to build the message "+t) {
				o.Failures = append(o.Failures, "no warning naming type "+t+" was logged")
			}
		}
	}
	return res
}

// observeDeterminism (C14, accompanying the solver-decided kernel): the real plugin is run several
// times on the same request (Go randomises map iteration per process) and on requests whose
// configuration lists are permuted; the generated file must be byte-identical.
func observeDeterminism(pluginBin, out string, seed int64) []*Observation {
	var res []*Observation
	for _, name := range []string{"P-flags", "P-multi", "P-names", "P-mapopt", "P00", "P-embed-2", "P-embed-mix", "P-embed-x", "P-oneof", "P-sorted", "P-custom", "P-embed-4"} {
		base := findProgram(name)
		o := &Observation{Name: "D-" + name, Mode: "determinism"}
		res = append(res, o)
		var file *d.FileDescriptorProto
		if base.Raw != nil {
			file = base.Raw()
		} else {
			file = base.File().build()
		}
		dir := filepath.Join(out, "D-"+name)
		var first string
		for run := 0; run < 16; run++ {
			cfg := base.Cfg()
			if run >= 8 {
				// permute every list of the configuration (rotation by run)
				rot := func(l []string) []string {
					if len(l) < 2 {
						return l
					}
					k := (run + int(seed)) % len(l)
					return append(append([]string{}, l[k:]...), l[:k]...)
				}
				cfg.Types, cfg.ExcludeFields, cfg.ComputedFields = rot(cfg.Types), rot(cfg.ExcludeFields), rot(cfg.ComputedFields)
				cfg.RequiredFields, cfg.SensitiveFields = rot(cfg.RequiredFields), rot(cfg.SensitiveFields)
			}
			cfgPath := filepath.Join(dir, fmt.Sprintf("cfg%d.yaml", run))
			writeFile(cfgPath, cfg.yaml())
			req := buildRequest(file, "config="+cfgPath)
			if run == 0 {
				o.Request = filepath.Join(dir, "req.bin")
				writeFile(o.Request, req)
			}
			resp, err := runPlugin(pluginBin, req, filepath.Join(dir, "plugin.log"))
			if err != nil || len(resp.File) != 1 {
				o.Failures = append(o.Failures, fmt.Sprintf("run %d: plugin failed: %v", run, err))
				break
			}
			content := resp.File[0].GetContent()
			if run == 0 {
				first = content
				continue
			}
			if content != first {
				kind := "a repeated run on the same request"
				if run >= 8 {
					kind = "a run with permuted configuration lists"
				}
				o.Failures = append(o.Failures, fmt.Sprintf("run %d (%s) produced a different file (%d vs %d bytes)", run, kind, len(content), len(first)))
				break
			}
		}
	}
	return res
}

// observeSorted (C15, sort enabled): the real plugin generates from a descriptor and from two
// re-orderings of it (declaration order of fields and messages reversed / rotated, comments moving
// with their declarations); with sort: true the three files must be byte-identical.
func observeSorted(pluginBin, out string) []*Observation {
	var res []*Observation
	for _, name := range []string{"P-docs", "P-flags", "P-multi", "P-mini", "P-oneof", "P-embed", "P-embed-x", "P-nest", "P-names", "P-mapopt", "P-time", "P-sorted", "P-oneof-excl", "P-embed-2", "P-embed-4"} {
		base := findProgram(name)
		o := &Observation{Name: "S-" + name, Mode: "sorted"}
		res = append(res, o)
		file := base.File().build()
		cfg := base.Cfg()
		cfg.Sort = true
		dir := filepath.Join(out, "S-"+name)
		cfgPath := filepath.Join(dir, "cfg.yaml")
		writeFile(cfgPath, cfg.yaml())
		var first string
		for i, mut := range []func(f *d.FileDescriptorProto, c *Config) (*d.FileDescriptorProto, *Config){ident, permute, rotate} {
			f, _ := mut(file, cfg)
			req := buildRequest(f, "config="+cfgPath)
			if i == 1 {
				o.Request = filepath.Join(dir, "req-reversed.bin")
				writeFile(o.Request, req)
			}
			resp, err := runPlugin(pluginBin, req, filepath.Join(dir, "plugin.log"))
			if err != nil || len(resp.File) != 1 {
				o.Failures = append(o.Failures, fmt.Sprintf("ordering %d: plugin failed: %v", i, err))
				break
			}
			content := resp.File[0].GetContent()
			if i == 0 {
				first = content
				continue
			}
			if content != first {
				o.Failures = append(o.Failures, fmt.Sprintf("with sort: true the file generated from the %s declaration order differs from the original's (first difference at byte %d)",
					[]string{"", "reversed", "rotated"}[i], firstDiff(content, first)))
			}
		}
	}
	return res
}

func firstDiff(a, b string) int {
	for i := 0; i < len(a) && i < len(b); i++ {
		if a[i] != b[i] {
			return i
		}
	}
	if len(a) < len(b) {
		return len(a)
	}
	return len(b)
}

// ---------- C12: the text of a type's functions does not depend on what else is selected ----------

type TextSel struct {
	Name  string
	Build func() (file *d.FileDescriptorProto, extra []*d.FileDescriptorProto, cfg *Config)
	Type  string   // the type whose three functions are compared
	With  []string // types selected next to it in the second run
}

func progSel(prog, typ string, with ...string) TextSel {
	return TextSel{Name: "T-" + prog + "-" + typ + "+" + strings.Join(with, "+"), Type: typ, With: with,
		Build: func() (*d.FileDescriptorProto, []*d.FileDescriptorProto, *Config) {
			b := findProgram(prog)
			return b.File().build(), nil, b.Cfg()
		}}
}

// importSel: the selected type inlines a message of a dependency file (own comments there), and another
// type of the generated file sits at the same message / field index as that message in its own file.
func importSel() TextSel {
	return TextSel{Name: "T-import-Server+Audit", Type: "Server", With: []string{"Audit"},
		Build: func() (*d.FileDescriptorProto, []*d.FileDescriptorProto, *Config) {
			dep := (&FileSpec{Name: "q/dep.proto", Msgs: []*M{
				msg("Meta", nil, fld("Name", TString).doc(" Name of the resource.\n"), fld("Labels", TString).rep().doc(" Labels of the resource.\n")).doc(" Meta is imported\n")}}).build()
			dep.Package = S("q")
			dep.Options.GoPackage = S("example.com/q")
			f := (&FileSpec{Name: "p.proto", Msgs: []*M{
				msg("Audit", nil, fld("User", TString).doc(" User that made the change.\n"), fld("Actions", TString).rep().doc(" Actions taken.\n")).doc(" Audit is local\n"),
				msg("Server", nil, fld("Addr", TString).doc(" Address.\n"), fld("Meta", TMessage).tn(".q.Meta").doc(" Metadata.\n"))}}).build()
			f.Dependency = append(f.Dependency, "q/dep.proto")
			return f, []*d.FileDescriptorProto{dep}, baseConfig()
		}}
}

func textSels() []TextSel {
	return []TextSel{progSel("P-multi", "A", "B"), progSel("P-multi", "B", "A", "Shared"), progSel("P-order", "Leaf", "Top", "Mid"), progSel("P-order", "Mid", "Top"),
		progSel("P-nest", "N1", "N2", "Inner"), progSel("P-docs", "Doc", "DE1"), progSel("P-flags", "Fl", "FlSub"), progSel("P-oneof", "O2", "O1"), importSel()}
}

// funcTexts returns the source text (doc comment included) of the given top-level functions.
func funcTexts(src string, names []string) (map[string]string, error) {
	fset := token.NewFileSet()
	f, err := parser.ParseFile(fset, "gen.go", src, parser.ParseComments)
	if err != nil {
		return nil, err
	}
	out := map[string]string{}
	for _, dcl := range f.Decls {
		fd, ok := dcl.(*ast.FuncDecl)
		if !ok || fd.Recv != nil || !inList(names, fd.Name.Name) {
			continue
		}
		start := fd.Pos()
		if fd.Doc != nil {
			start = fd.Doc.Pos()
		}
		out[fd.Name.Name] = src[fset.Position(start).Offset:fset.Position(fd.End()).Offset]
	}
	return out, nil
}

func observeTextIndependence(pluginBin, out string) []*Observation {
	var res []*Observation
	for _, ts := range textSels() {
		o := &Observation{Name: ts.Name, Mode: "text"}
		res = append(res, o)
		file, extra, cfg := ts.Build()
		names := []string{"GenSchema" + ts.Type, "Copy" + ts.Type + "FromTerraform", "Copy" + ts.Type + "ToTerraform"}
		var texts []map[string]string
		for run, types := range [][]string{{ts.Type}, append(append([]string{}, ts.With...), ts.Type)} {
			c := cfg.clone()
			c.Types = types
			dir := filepath.Join(out, ts.Name, fmt.Sprint(run))
			cfgPath := filepath.Join(dir, "cfg.yaml")
			writeFile(cfgPath, c.yaml())
			req := buildRequest(file, "config="+cfgPath, extra...)
			if run == 1 {
				o.Request = filepath.Join(dir, "req.bin")
				writeFile(o.Request, req)
			}
			resp, err := runPlugin(pluginBin, req, filepath.Join(dir, "plugin.log"))
			if err != nil || len(resp.File) != 1 {
				o.Failures = append(o.Failures, fmt.Sprintf("types=%v: plugin failed: %v", types, err))
				break
			}
			t, err := funcTexts(resp.File[0].GetContent(), names)
			if err != nil {
				o.Failures = append(o.Failures, fmt.Sprintf("types=%v: generated file does not parse: %v", types, err))
				break
			}
			texts = append(texts, t)
		}
		if len(texts) == 2 {
			for _, n := range names {
				a, okA := texts[0][n]
				b, okB := texts[1][n]
				switch {
				case !okA || !okB:
					o.Failures = append(o.Failures, fmt.Sprintf("%s is missing (alone: %v, with %v: %v)", n, okA, ts.With, okB))
				case a != b:
					o.Failures = append(o.Failures, fmt.Sprintf("the text of %s differs when %v are selected as well (first difference at byte %d of the function)", n, ts.With, firstDiff(a, b)))
				}
			}
		}
	}
	return res
}

// ---------- C10 / C11 beyond D: a message declared inside another message ----------

// observeNestedDecl: nested message declarations are outside the fragment D (no struct-level harness is
// generated for them); this observation only looks at the schema text the real plugin emits: options
// keyed Inner.field (the proto name of the nested-declared message) reach the fields of that message.
func observeNestedDecl(pluginBin, out string) []*Observation {
	o := &Observation{Name: "N-nested-declaration", Mode: "nested"}
	inner := msg("Inner", nil, fld("token", TString), fld("note", TString), fld("plain", TString))
	outer := msg("Outer", nil, fld("creds", TMessage).tn("."+pkgName+".Outer.Inner"), fld("backup", TMessage).tn("."+pkgName+".Outer.Inner").rep(), fld("side_token", TString))
	outer.DescriptorProto.NestedType = append(outer.DescriptorProto.NestedType, inner.DescriptorProto)
	file := (&FileSpec{Name: "p.proto", Msgs: []*M{outer}}).build()
	cfg := baseConfig("Outer")
	cfg.SensitiveFields = []string{"Inner.token"}
	cfg.ComputedFields = []string{"Inner.note"}
	cfg.RequiredFields = []string{"Outer.side_token", "Outer.creds.plain"}
	dir := filepath.Join(out, o.Name)
	cfgPath := filepath.Join(dir, "cfg.yaml")
	writeFile(cfgPath, cfg.yaml())
	req := buildRequest(file, "config="+cfgPath)
	o.Request = filepath.Join(dir, "req.bin")
	writeFile(o.Request, req)
	resp, err := runPlugin(pluginBin, req, filepath.Join(dir, "plugin.log"))
	if err != nil || len(resp.File) != 1 {
		o.Failures = append(o.Failures, fmt.Sprintf("plugin failed: %v", err))
		return []*Observation{o}
	}
	fset := token.NewFileSet()
	f, perr := parser.ParseFile(fset, "gen.go", resp.File[0].GetContent(), 0)
	if perr != nil {
		o.Failures = append(o.Failures, "generated file does not parse: "+perr.Error())
		return []*Observation{o}
	}
	// flags[attribute name] = set of boolean schema fields that are true, over all occurrences in GenSchemaOuter
	type occ map[string]bool
	flags := map[string][]occ{}
	for _, dcl := range f.Decls {
		fd, ok := dcl.(*ast.FuncDecl)
		if !ok || fd.Name.Name != "GenSchemaOuter" {
			continue
		}
		ast.Inspect(fd, func(n ast.Node) bool {
			kv, ok := n.(*ast.KeyValueExpr)
			if !ok {
				return true
			}
			key, ok := kv.Key.(*ast.BasicLit)
			cl, ok2 := kv.Value.(*ast.CompositeLit)
			if !ok || !ok2 || key.Kind != token.STRING {
				return true
			}
			oc := occ{}
			for _, el := range cl.Elts {
				if e, ok := el.(*ast.KeyValueExpr); ok {
					if id, ok := e.Key.(*ast.Ident); ok {
						if v, ok := e.Value.(*ast.Ident); ok && v.Name == "true" {
							oc[id.Name] = true
						}
					}
				}
			}
			name := strings.Trim(key.Value, "\"")
			flags[name] = append(flags[name], oc)
			return true
		})
	}
	expect := func(attr, flag string, want bool, n int) {
		occs := flags[attr]
		if len(occs) != n {
			o.Failures = append(o.Failures, fmt.Sprintf("attribute %q occurs %d times in GenSchemaOuter, want %d", attr, len(occs), n))
			return
		}
		for _, oc := range occs {
			if oc[flag] != want {
				o.Failures = append(o.Failures, fmt.Sprintf("attribute %q: %s is %v, want %v (option keyed by the proto name of the nested-declared message)", attr, flag, oc[flag], want))
				return
			}
		}
	}
	expect("token", "Sensitive", true, 2)
	expect("note", "Computed", true, 2)
	expect("plain", "Sensitive", false, 2)
	expect("side_token", "Required", true, 1)
	return []*Observation{o}
}
