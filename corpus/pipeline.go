package main

// Pipeline: request -> real plugin binary -> gogo structs -> scratch module
// with support code, vrt runtime, specgen harnesses and the replay command.

import (
	"bytes"
	"encoding/json"
	"fmt"
	"io/ioutil"
	"os"
	"os/exec"
	"path/filepath"
	"strings"

	"github.com/gogo/protobuf/proto"
	d "github.com/gogo/protobuf/protoc-gen-gogo/descriptor"
	plugin "github.com/gogo/protobuf/protoc-gen-gogo/plugin"
	"github.com/gogo/protobuf/vanity/command"
)

const modName = "vp"

var verifRoot = "/verif"

func must(err error) {
	if err != nil {
		fmt.Fprintln(os.Stderr, "corpus:", err)
		os.Exit(2)
	}
}

func writeFile(path string, data []byte) {
	must(os.MkdirAll(filepath.Dir(path), 0755))
	must(ioutil.WriteFile(path, data, 0644))
}

// runPlugin runs the real plugin binary on a request and returns the response.
func runPlugin(bin string, req []byte, logTo string) (*plugin.CodeGeneratorResponse, error) {
	cmd := exec.Command(bin)
	cmd.Stdin = bytes.NewReader(req)
	var out, errb bytes.Buffer
	cmd.Stdout, cmd.Stderr = &out, &errb
	err := cmd.Run()
	if logTo != "" {
		ioutil.WriteFile(logTo, errb.Bytes(), 0644)
	}
	if err != nil {
		return nil, fmt.Errorf("plugin failed: %v: %s", err, tail(errb.String()))
	}
	resp := &plugin.CodeGeneratorResponse{}
	if err := proto.Unmarshal(out.Bytes(), resp); err != nil {
		return nil, fmt.Errorf("plugin wrote something that is not a CodeGeneratorResponse: %v", err)
	}
	if resp.Error != nil {
		return nil, fmt.Errorf("plugin error: %s", resp.GetError())
	}
	return resp, nil
}

func tail(s string) string {
	if len(s) > 600 {
		return s[len(s)-600:]
	}
	return s
}

// gogoStructs runs gogo's own generator in process.
func gogoStructs(file *d.FileDescriptorProto) (string, error) {
	reqb := buildRequest(file, "")
	req := &plugin.CodeGeneratorRequest{}
	if err := proto.Unmarshal(reqb, req); err != nil {
		return "", err
	}
	resp := command.Generate(req)
	if resp.Error != nil {
		return "", fmt.Errorf("gogo: %s", resp.GetError())
	}
	for _, f := range resp.File {
		if strings.HasSuffix(f.GetName(), ".pb.go") {
			return f.GetContent(), nil
		}
	}
	return "", fmt.Errorf("gogo produced no .pb.go")
}

func goMod() string {
	b, err := ioutil.ReadFile("/repo/go.mod")
	must(err)
	s := string(b)
	s = strings.Replace(s, "module github.com/gravitational/protoc-gen-terraform/v3", "module "+modName, 1)
	return s
}

const replayMain = `package main

import (
	"fmt"
	"os"

	"vp/PKG"
	"vp/vrt"
)

func main() {
	if len(os.Args) < 2 {
		for n := range PKG.Harnesses {
			fmt.Println(n)
		}
		return
	}
	f, ok := PKG.Harnesses[os.Args[1]]
	if !ok {
		fmt.Fprintln(os.Stderr, "unknown harness", os.Args[1])
		os.Exit(2)
	}
	vec := ""
	if len(os.Args) > 2 {
		vec = os.Args[2]
	}
	vrt.Load(vec)
	vrt.Run(f)
}
`

const supportImports = `
import (
	"context"

	"github.com/hashicorp/terraform-plugin-framework/attr"
	"github.com/hashicorp/terraform-plugin-framework/diag"
	"github.com/hashicorp/terraform-plugin-framework/tfsdk"
	"github.com/hashicorp/terraform-plugin-framework/types"
)

var _ attr.Value
var _ diag.Diagnostics
var _ = types.StringType
`

const supportExtra = `
type Duration int64
type MyString string
type MyInt int32
type SecondsDuration float64
type MyDuration int64
type StrCustom string
type Under_Score string
type BoolCustom bool

// MockValidator / UseMockValidator: a validator the configuration can name
type MockValidator struct{}

func UseMockValidator() tfsdk.AttributeValidator { return MockValidator{} }
func (v MockValidator) Description(_ context.Context) string         { return "Mock validator" }
func (v MockValidator) MarkdownDescription(_ context.Context) string { return "Mock validator" }
func (v MockValidator) Validate(_ context.Context, req tfsdk.ValidateAttributeRequest, resp *tfsdk.ValidateAttributeResponse) {
}
`

type BuildInfo struct {
	Program   string   `json:"program"`
	Dir       string   `json:"dir"`
	Pkg       string   `json:"pkg"`
	Roots     []string `json:"roots"`
	Harnesses []string `json:"harnesses"`
	ModelErrs []string `json:"model_errors,omitempty"`
	PluginLog string   `json:"plugin_log"`
	Generated string   `json:"generated_file"`
	Shapes    []string `json:"shapes"`
	Summarize string   `json:"summarize,omitempty"`
	KL        int      `json:"kl"`
	KM        int      `json:"km"`
	// Missing: functions of a compared root that variant B's generated file does not contain
	Missing []string `json:"missing_functions,omitempty"`
}

// buildProgram assembles the scratch module for one corpus program (same-package mode).
func buildProgram(p *Program, pluginBin, out string, kl, km int) (*BuildInfo, error) {
	return buildProgramWithStructs(p, pluginBin, out, kl, km, nil)
}

// buildProgramWithStructs: structs != nil overrides the file gogo generates package p from.
func buildProgramWithStructs(p *Program, pluginBin, out string, kl, km int, structs *d.FileDescriptorProto) (*BuildInfo, error) {
	var file *d.FileDescriptorProto
	if p.Raw != nil {
		file = p.Raw()
	} else {
		file = p.File().build()
	}
	cfg := p.Cfg()
	must(os.MkdirAll(out, 0755))
	cfgPath := filepath.Join(out, "cfg.yaml")
	writeFile(cfgPath, cfg.yaml())
	req := buildRequest(file, "config="+cfgPath)
	writeFile(filepath.Join(out, "req.bin"), req)
	resp, err := runPlugin(pluginBin, req, filepath.Join(out, "plugin.log"))
	if err != nil {
		return nil, err
	}
	if len(resp.File) != 1 {
		return nil, fmt.Errorf("expected exactly one generated file, got %d", len(resp.File))
	}
	sf := file
	if structs != nil {
		sf = structs
	}
	pb, err := gogoStructs(sf)
	if err != nil {
		return nil, err
	}
	pkg := file.GetPackage()
	base := strings.TrimSuffix(file.GetName(), ".proto")
	writeFile(filepath.Join(out, "go.mod"), []byte(goMod()))
	sum, _ := ioutil.ReadFile("/repo/go.sum")
	writeFile(filepath.Join(out, "go.sum"), sum)
	vrtSrc, err := ioutil.ReadFile(filepath.Join(verifRoot, "harness/vrt/vrt.go"))
	must(err)
	writeFile(filepath.Join(out, "vrt/vrt.go"), vrtSrc)
	writeFile(filepath.Join(out, pkg, base+".pb.go"), []byte(pb))
	gen := filepath.Join(out, pkg, filepath.Base(resp.File[0].GetName()))
	writeFile(gen, []byte(resp.File[0].GetContent()))
	sup, err := ioutil.ReadFile(filepath.Join(verifRoot, "corpus/support/time_duration.go.txt"))
	must(err)
	if p.RepoSupport {
		p00Support(filepath.Join(out, pkg))
	} else {
		writeFile(filepath.Join(out, pkg, "support_time.go"), []byte(strings.Replace(string(sup), "package PKG", "package "+pkg, 1)))
		// DateType / DateValue: a second time-like Terraform type for schema_types overrides (the TimeType part
		// of the support file under other names), and a constructor that returns the plain TimeType
		if i := strings.Index(string(sup), "// DurationType"); i > 0 {
			date := string(sup)[:i]
			for _, r := range [][2]string{{"TimeType", "DateType"}, {"TimeValue", "DateValue"}, {"UseRFC3339Time", "UseRFC3339Date"}, {"timeThreshold", "dateThreshold"}, {"package PKG", "package " + pkg}} {
				date = strings.ReplaceAll(date, r[0], r[1])
			}
			date += "\n// UsePlainTime: a type constructor that returns the plain TimeType\nfunc UsePlainTime() TimeType { return TimeType{} }\n"
			writeFile(filepath.Join(out, pkg, "support_date.go"), []byte(date))
		}
	}
	if p.RepoSupport {
	} else if p.Support != "" {
		writeFile(filepath.Join(out, pkg, "support_extra.go"), []byte("package "+pkg+"\n"+supportImports+supportExtra+p.Support))
	} else {
		writeFile(filepath.Join(out, pkg, "support_extra.go"), []byte("package "+pkg+"\n"+supportImports+supportExtra))
	}
	writeFile(filepath.Join(out, "cmd/replay/main.go"), []byte(strings.ReplaceAll(replayMain, "PKG", pkg)))

	m := NewModel(file, cfg)
	g := &Gen{m: m, KL: kl, KM: km, done: map[string]bool{}, HookPassThrough: !p.RepoSupport}
	info := &BuildInfo{Program: p.Name, Dir: out, Pkg: pkg, ModelErrs: m.Errs, PluginLog: filepath.Join(out, "plugin.log"), Generated: gen}
	for _, r := range m.Roots {
		info.Roots = append(info.Roots, r.ID)
		for _, fam := range p.Families {
			switch fam {
			case "rt":
				g.harnessRT(r)
			case "custom":
				g.havocMsg(r.Msg)
				g.attrTypes(r)
				if g.once("extra") {
					g.p("%s", p.Extra)
					g.hs = append(g.hs, p.ExtraHs...)
				}
			case "corrupt":
				g.harnessCorrupt(r)
			case "schema":
				g.harnessSchema(r)
			case "from":
				g.harnessFrom(r)
			case "echo":
				g.harnessEcho(r)
			case "refresh":
				g.harnessRefresh(r)
			}
		}
	}
	info.Harnesses = g.hs
	info.KL, info.KM = kl, km
	if p.RepoSupport {
		// the repository's own test hooks are user code (string-theory code; CopyToBoolSpecial indexes a shorter existing list): summarised (S4)
		info.Summarize = "^(CopyTo|CopyFrom)(StringCustom|BoolSpecial)$"
	}
	imports := []string{`"context"`, `"time"`, `"strconv"`, `"github.com/hashicorp/terraform-plugin-framework/attr"`, `"github.com/hashicorp/terraform-plugin-framework/diag"`,
		`"github.com/hashicorp/terraform-plugin-framework/types"`, `"github.com/hashicorp/terraform-plugin-framework/tfsdk"`, `"` + modName + `/vrt"`}
	writeFile(filepath.Join(out, pkg, "zz_spec.go"), []byte(g.file(pkg, imports)))
	b, _ := json.MarshalIndent(info, "", " ")
	writeFile(filepath.Join(out, "build.json"), b)
	return info, nil
}
