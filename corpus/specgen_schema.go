package main

// specgen, schema side: the schema GenSchemaT returns is walked against the
// oracle's names, types, flags and descriptions (C02 / C10). For a concrete
// program these assertions fold to constants; they are counted as "folded"
// obligations in the evidence (DESIGN §5.2, FS).

import (
	"fmt"
	"strings"
)

// sl maps the property prefix of a schema label; differential harnesses report under their own property.
func (g *Gen) sl(p string) string {
	if g.SchemaProp != "" {
		return g.SchemaProp + "/schema"
	}
	return p
}

func (g *Gen) schemaCheck(o *Occ) {
	if !g.once("schemaCheck_" + o.ID) {
		return
	}
	var b strings.Builder
	w := func(format string, a ...interface{}) { fmt.Fprintf(&b, "\t"+format+"\n", a...) }
	n := len(o.Slots) + len(o.Injected)
	if o.Empty {
		n++
	}
	w(`vrt.Assert("C02/"+path+":attribute-count", len(as) == %d)`, n)
	// C10: besides the fields' attributes there are exactly the injected attributes configured for this path
	w(`vrt.Assert("C10/"+path+":only-the-configured-injected-attributes", len(as) == %d)`, n)
	flags := func(name string, req, comp, sens bool, desc string, nval, npm int) {
		w(`  vrt.Assert("C10/"+path+"/%s:required", a.Required == %v)`, name, req)
		w(`  vrt.Assert("C10/"+path+"/%s:optional", a.Optional == %v)`, name, !req)
		w(`  vrt.Assert("C10/"+path+"/%s:computed", a.Computed == %v)`, name, comp)
		w(`  vrt.Assert("C10/"+path+"/%s:sensitive", a.Sensitive == %v)`, name, sens)
		w(`  vrt.Assert("C10/"+path+"/%s:description", a.Description == %q)`, name, desc)
		w(`  vrt.Assert("C10/"+path+"/%s:validators", len(a.Validators) == %d)`, name, nval)
		w(`  vrt.Assert("C10/"+path+"/%s:plan-modifiers", len(a.PlanModifiers) == %d)`, name, npm)
	}
	if o.Empty {
		w(`{ a, ok := as["active"]; vrt.Assert("C10/"+path+"/active:placeholder-present", ok)`)
		w(`  vrt.Assert("C10/"+path+"/active:placeholder-type", vrt.SameType(a.Type, types.BoolType) && a.Attributes == nil)`)
		w(`  vrt.Assert("C10/"+path+"/active:placeholder-flags", a.Computed && a.Optional && !a.Required && !a.Sensitive) }`)
	}
	for _, inj := range o.Injected {
		w(`{ a, ok := as[%q]; vrt.Assert("C10/"+path+"/%s:injected-present", ok)`, inj.Name, inj.Name)
		w(`  vrt.Assert("C10/"+path+"/%s:injected-type", vrt.SameType(a.Type, %s))`, inj.Name, injectedTypeExpr(inj.Type))
		w(`  vrt.Assert("C10/"+path+"/%s:injected-flags", a.Required == %v && a.Computed == %v && a.Optional == %v)`, inj.Name, inj.Required, inj.Computed, inj.Optional)
		w(`  vrt.Assert("C10/"+path+"/%s:injected-lists", len(a.Validators) == %d && len(a.PlanModifiers) == %d) }`, inj.Name, len(inj.Validators), len(inj.PlanModifiers))
	}
	for _, s := range o.Slots {
		name := s.Attr
		w(`{ a, ok := as[%q]; vrt.Assert("C02/"+path+"/%s:present", ok)`, name, name)
		if s.Kind != SCustom {
			flags(name, s.Required, s.Computed, s.Sensitive, s.Comment, len(s.Validators), len(s.PlanModifiers))
			// which plan modifier, not only how many (the two framework modifiers are told apart by type)
			for i, pm := range s.PlanModifiers {
				switch pm {
				case "github.com/hashicorp/terraform-plugin-framework/tfsdk.RequiresReplace()":
					w(`  if len(a.PlanModifiers) == %d { _, is := a.PlanModifiers[%d].(tfsdk.RequiresReplaceModifier); vrt.Assert("C10/"+path+"/%s:plan-modifier-%d-is-the-configured-one", is) }`, len(s.PlanModifiers), i, name, i)
				case "github.com/hashicorp/terraform-plugin-framework/tfsdk.UseStateForUnknown()":
					w(`  if len(a.PlanModifiers) == %d { _, is := a.PlanModifiers[%d].(tfsdk.UseStateForUnknownModifier); vrt.Assert("C10/"+path+"/%s:plan-modifier-%d-is-the-configured-one", is) }`, len(s.PlanModifiers), i, name, i)
				}
			}
		}
		switch s.Kind {
		case SScalar, SList, SMap:
			w(`  vrt.Assert("C02/"+path+"/%s:type", vrt.SameType(a.Type, %s) && a.Attributes == nil)`, name, g.slotTypeExpr(s))
			// C03 speaks of "an object that carries the attribute types of GenSchemaT": the harnesses type their
			// objects from the oracle, so the schema's type has to be the oracle's (and the converters') type
			w(`  vrt.Assert("C03/"+path+"/%s:schema-type-is-the-converters-type", vrt.SameType(a.Type, %s))`, name, g.slotTypeExpr(s))
		case SMsg, SMsgList, SMsgMap:
			mode := map[SlotKind]string{SMsg: "tfsdk.NestingModeSingle", SMsgList: "tfsdk.NestingModeList", SMsgMap: "tfsdk.NestingModeMap"}[s.Kind]
			w(`  vrt.Assert("C02/"+path+"/%s:nested", a.Type == nil && a.Attributes != nil)`, name)
			w(`  if a.Attributes != nil { vrt.Assert("C02/"+path+"/%s:nesting-mode", a.Attributes.GetNestingMode() == %s); schemaCheck_%s(a.Attributes.GetAttributes(), path+"/%s") }`, name, mode, s.Sub.ID, name)
		case SCustom:
			// C17: the entry is what GenSchema<S> returned for the attribute the field would otherwise get
			w(`  vrt.Assert("C17/"+path+"/%s:schema-hook-result", vrt.SameType(a.Type, customAttrType_%s()))`, name, s.Suffix)
			if g.HookPassThrough {
				// the corpus hooks return their argument with Type set, so the argument is observable
				w(`  vrt.Assert("C17/"+path+"/%s:schema-hook-argument", a.Description == %q && a.Required == %v && a.Optional == %v && a.Computed == %v && a.Sensitive == %v)`,
					name, s.Comment, s.Required, !s.Required, s.Computed, s.Sensitive)
				w(`  vrt.Assert("C17/"+path+"/%s:schema-hook-argument-lists", len(a.Validators) == %d && len(a.PlanModifiers) == %d)`, name, len(s.Validators), len(s.PlanModifiers))
			}
		}
		w(`}`)
	}
	body := b.String()
	if g.SchemaProp != "" {
		for _, p := range []string{"C02", "C03", "C10", "C17"} {
			body = strings.ReplaceAll(body, `vrt.Assert("`+p+`/"+path`, `vrt.Assert("`+g.SchemaProp+`/schema/"+path`)
		}
	}
	g.p("func schemaCheck_%s(as map[string]tfsdk.Attribute, path string) {\n%s}\n", o.ID, body)
	for _, s := range o.Slots {
		if s.Sub != nil {
			g.schemaCheck(s.Sub)
		}
	}
}

func (g *Gen) harnessSchema(o *Occ) {
	g.attrTypes(o)
	g.schemaCheck(o)
	name := "Harness_Schema_" + o.ID
	g.hs = append(g.hs, name)
	g.p(`func %s() {
	ctx := context.Background()
	s, d := %sGenSchema%s(ctx)
	vrt.CheckNoPanic("C02/%s/schema:no-panic")
	vrt.Assert("C02/%s/schema:no-error-diagnostic", !d.HasError())
	schemaCheck_%s(s.Attributes, %q)
	vrt.Reach("Schema/%s/end")
}
`, name, g.FQ, o.MsgName, o.ID, o.ID, o.ID, o.ID, o.ID)
}
