package main

// Corpus tables (DESIGN.md §3.3, Appendix C). Every program is a descriptor
// built with the DSL of desc.go plus a configuration.

import (
	"strings"

	d "github.com/gogo/protobuf/protoc-gen-gogo/descriptor"
)

type d2Enum = d.EnumDescriptorProto

type Program struct {
	Name     string
	Quick    bool
	File     func() *FileSpec
	Raw      func() *d.FileDescriptorProto // alternative to File (P00)
	Cfg      func() *Config
	Families []string // harness families to emit: rt from echo refresh corrupt ni custom
	Note     string
	Support  string // extra support source appended to support.go
	Bounds   map[string][2]int // per family: {KL, KM} caps (stated in evidence)
	RepoSupport bool           // support code copied from /repo/test (P00)
	Extra    string            // hand-written harness source appended to zz_spec.go (family "custom")
	ExtraHs  []string          // names of the harness functions in Extra
	SepHooks string            // source of the hook delegators a separate target package needs
	ObserveOnly bool          // used by pipeline observations only (no harness is generated for it)
}

func leafMsg() *M  { return msg("Leaf", nil, fld("Str", TString), fld("Num", TInt64)) }
func emptyMsg() *M { return msg("Empty", nil) }
func innerMsg() *M {
	return msg("Inner", nil, fld("Str", TString), fld("List", TString).rep(), mfld("Sub", "Leaf"), mapfld("M", fld("v", TString)))
}
func modeEnum() *d.EnumDescriptorProto { return enum("Mode", "UNKNOWN", "ON", "OFF") }

func scalarName(t d.FieldDescriptorProto_Type) string {
	return strings.Title(strings.ToLower(strings.TrimPrefix(t.String(), "TYPE_")))
}

var allFamilies = []string{"rt", "from", "echo", "refresh", "schema", "corrupt"}

func programs() []*Program {
	var ps []*Program
	add := func(p *Program) {
		if p.Families == nil {
			p.Families = allFamilies
		}
		ps = append(ps, p)
	}
	add(&Program{Name: "P00", Quick: true, Families: []string{"rt", "from", "echo", "refresh", "schema"}, Raw: p00Descriptor, Cfg: p00Config,
		RepoSupport: true, Bounds: map[string][2]int{"rt": {2, 1}, "from": {2, 1}, "echo": {2, 1}, "refresh": {2, 1}},
		Note: "the repository's own fixture (test/test.pb.go, test/test.proto, test/config.yaml)"})
	add(&Program{Name: "P-mini", Quick: true,
		File: func() *FileSpec {
			t := msg("T", []string{"O"},
				fld("FStr", TString), fld("FI32", TInt32), fld("FU64", TUint64), fld("FFloat", TFloat), fld("FBool", TBool), fld("FBytes", TBytes),
				mfld("NP", "Leaf"), mfld("N", "Leaf").nonnull(), fld("RStr", TString).rep(),
				fld("OS", TString).oneof(0), mfld("OM", "Leaf").oneof(0), mapfld("M", fld("v", TString)))
			return &FileSpec{Name: "p.proto", Enums: []*d.EnumDescriptorProto{modeEnum()}, Msgs: []*M{leafMsg(), t}}
		},
		Cfg: func() *Config { return baseConfig("T") }})

	// every scalar kind, singular / repeated / map value, 5 per root
	for gi := 0; gi < 3; gi++ {
		gi := gi
		names := []string{"S1", "S2", "S3"}
		add(&Program{Name: "P-scal-" + names[gi], Quick: true,
			File: func() *FileSpec {
				var fs, rs, ms []F
				for _, t := range scalarTypes[gi*5 : gi*5+5] {
					n := scalarName(t)
					fs = append(fs, fld("F"+n, t))
					rs = append(rs, fld("R"+n, t).rep())
					if t != TBytes {
						ms = append(ms, mapfld("M"+n, fld("v", t)))
					}
				}
				if gi == 2 {
					fs = append(fs, efld("FEnum", "Mode"))
					rs = append(rs, efld("REnum", "Mode").rep())
					ms = append(ms, mapfld("MEnum", efld("v", "Mode")))
				}
				return &FileSpec{Name: "p.proto", Enums: []*d.EnumDescriptorProto{modeEnum()},
					Msgs: []*M{msg(names[gi], nil, fs...), msg(names[gi]+"R", nil, rs...), msg(names[gi]+"M", nil, ms...)}}
			},
			Cfg: func() *Config { return baseConfig(names[gi], names[gi]+"R", names[gi]+"M") }})
	}

	add(&Program{Name: "P-time", Quick: true,
		File: func() *FileSpec {
			t1 := msg("Tm1", nil,
				tsfld("Ts").nonnull(), tsfld("TsP"), tsfld("TsL").rep(), tsfld("TsLV").nonnull().rep(),
				mapfld("TsM", tsfld("v")))
			t2 := msg("Tm2", nil,
				fld("DuI", TInt64).stddur(), dufld("Du").nonnull(), dufld("DuP"), dufld("DuL").rep(),
				fld("DuC", TInt64).cast("Duration"), fld("DuCL", TInt64).cast("Duration").rep(), mapfld("DuM", dufld("v")))
			return &FileSpec{Name: "p.proto", Msgs: []*M{t1, t2}}
		},
		Cfg: func() *Config { return baseConfig("Tm1", "Tm2") }})

	add(&Program{Name: "P-cast", Quick: true,
		File: func() *FileSpec {
			c := msg("Cs", nil, fld("CS", TString).cast("MyString"), fld("CI", TInt32).cast("MyInt"),
				fld("CSL", TString).cast("MyString").rep(), fld("CIL", TInt32).cast("MyInt").rep(),
				// ends in "Duration" (the configured duration_custom_type) but is not that type
				fld("CF", TDouble).cast("SecondsDuration"), fld("CFL", TDouble).cast("SecondsDuration").rep(), fld("CD", TInt64).cast("MyDuration"))
			return &FileSpec{Name: "p.proto", Msgs: []*M{c}}
		},
		Cfg: func() *Config { return baseConfig("Cs") }})

	add(&Program{Name: "P-nest", Quick: true,
		File: func() *FileSpec {
			n1 := msg("N1", nil, mfld("N", "Inner").nonnull(), mfld("NP", "Inner"), fld("lower_snake_name", TString), mfld("lower_msg", "Leaf"))
			n2 := msg("N2", nil, mfld("NL", "Inner").nonnull().rep(), mfld("NLP", "Inner").rep())
			return &FileSpec{Name: "p.proto", Msgs: []*M{leafMsg(), innerMsg(), n1, n2}}
		},
		Cfg: func() *Config { return baseConfig("N1", "N2") }})

	// maps of messages that themselves hold lists and maps: the refresh/echo harnesses
	// (three in-place copies) only solve with one entry per map
	add(&Program{Name: "P-nest-map", Quick: true, Bounds: map[string][2]int{"refresh": {2, 1}, "echo": {2, 1}, "from": {2, 1}},
		File: func() *FileSpec {
			n3 := msg("N3", nil, mapfld("NM", mfld("v", "Inner").nonnull()), mapfld("NMP", mfld("v", "Inner")), mapfld("lower_map", fld("v", TString)))
			return &FileSpec{Name: "p.proto", Msgs: []*M{leafMsg(), innerMsg(), n3}}
		},
		Cfg: func() *Config { return baseConfig("N3") }})

	add(&Program{Name: "P-oneof", Quick: true,
		File: func() *FileSpec {
			o1 := msg("O1", []string{"Kind", "lower_kind"}, fld("Own", TString),
				fld("KS", TString).oneof(0), fld("KI", TInt32).oneof(0), mfld("KM", "Leaf").oneof(0), mfld("KE", "Empty").oneof(0),
				efld("KEn", "Mode").oneof(0), fld("KD", TDouble).oneof(0),
				fld("l_a", TString).oneof(1), fld("l_b", TBool).oneof(1))
			o2 := msg("O2", nil, mfld("L", "O1").rep(), mfld("P", "O1"))
			return &FileSpec{Name: "p.proto", Enums: []*d.EnumDescriptorProto{modeEnum()}, Msgs: []*M{leafMsg(), emptyMsg(), o1, o2}}
		},
		Cfg: func() *Config { return baseConfig("O1", "O2") }})

	// exclusions inside oneof groups: the last declared branch of one group, the first of another
	add(&Program{Name: "P-oneof-excl", Quick: true,
		File: func() *FileSpec {
			ox := msg("OX", []string{"Choice", "other"}, fld("Name", TString),
				fld("Alpha", TString).oneof(0), fld("Beta", TInt64).oneof(0), fld("Gamma", TString).oneof(0),
				fld("First", TString).oneof(1), fld("Second", TBool).oneof(1))
			// a root message whose very first field is a oneof branch, and one that consists of a oneof only
			of := msg("OF", []string{"pick"}, fld("Head", TString).oneof(0), fld("Next", TInt64).oneof(0), fld("Tail", TString))
			oo := msg("OO", []string{"Only"}, fld("A", TString).oneof(0), fld("B", TBool).oneof(0))
			return &FileSpec{Name: "p.proto", Msgs: []*M{ox, msg("OXH", nil, mfld("V", "OX").nonnull(), mfld("P", "OX")), of, oo}}
		},
		Cfg: func() *Config {
			c := baseConfig("OX", "OXH", "OF", "OO")
			c.ExcludeFields = []string{"OX.Gamma", "OX.First"}
			return c
		}})

	add(&Program{Name: "P-oneof-dur", Quick: true,
		File: func() *FileSpec {
			od := msg("OD", []string{"O"}, fld("Own", TString),
				tsfld("OTs").oneof(0), fld("OB", TBytes).oneof(0), fld("ODu", TInt64).stddur().oneof(0), fld("ODc", TInt64).cast("Duration").oneof(0))
			return &FileSpec{Name: "p.proto", Msgs: []*M{od}}
		},
		Cfg: func() *Config { return baseConfig("OD") }})

	add(&Program{Name: "P-embed", Quick: true,
		File: func() *FileSpec {
			emb := msg("Emb", nil, fld("EStr", TString).json("e_str"), mfld("ESub", "Leaf"), fld("EList", TString).rep())
			embp := msg("EmbP", nil, fld("PDur", TInt64).cast("Duration").json("p_dur"))
			e1 := msg("E1", nil, fld("Own", TString), mfld("Emb", "Emb").nonnull().embed(), mfld("EmbP", "EmbP").embed())
			holder := msg("Holder", nil, mfld("EmbP", "EmbP").embed(), fld("X", TString))
			e2 := msg("E2", nil, mfld("A", "Holder"), mfld("B", "Holder").nonnull(), mfld("L", "Holder").rep())
			return &FileSpec{Name: "p.proto", Msgs: []*M{leafMsg(), emb, embp, e1, holder, e2}}
		},
		Cfg: func() *Config { return baseConfig("E1", "E2") }})

	add(&Program{Name: "P-embed-x", Quick: true,
		File: func() *FileSpec {
			ex1 := msg("EmbS", nil, fld("XStr", TString), fld("XNum", TInt64))
			ex2 := msg("EmbO", nil, mfld("XSub", "Leaf"), fld("XList", TString).rep(), mapfld("XM", fld("v", TString)))
			return &FileSpec{Name: "p.proto", Msgs: []*M{leafMsg(), ex1, ex2,
				msg("EX1", nil, fld("Own", TString), mfld("EmbS", "EmbS").embed()),
				msg("EX2", nil, fld("Own", TString), mfld("EmbO", "EmbO").embed())}}
		},
		Cfg: func() *Config { return baseConfig("EX1", "EX2") }})

	// time / duration pointers, a by-value message and bytes inside a nullable embedded message
	add(&Program{Name: "P-embed-t", Quick: true,
		File: func() *FileSpec {
			et := msg("EmbT", nil, tsfld("XTs"), dufld("XDu"), tsfld("XTsV").nonnull(), mfld("XVal", "Leaf").nonnull(), fld("XRaw", TBytes))
			// a by-value message as the first field of a nullable embedded message (nothing before it allocates the embed)
			ev := msg("EmbV", nil, mfld("Box", "Leaf").nonnull(), fld("Note", TString), mfld("Boxes", "Leaf").nonnull().rep())
			return &FileSpec{Name: "p.proto", Msgs: []*M{leafMsg(), et, ev,
				msg("EX3", nil, fld("Own", TString), mfld("EmbT", "EmbT").embed()),
				msg("EX4", nil, mfld("EmbV", "EmbV").embed(), fld("Own", TString))}}
		},
		Cfg: func() *Config { return baseConfig("EX3", "EX4") }})

	// two nullable embedded messages in one message (each with several fields)
	add(&Program{Name: "P-embed-2", Quick: true,
		File: func() *FileSpec {
			ea := msg("EmbA", nil, fld("A1", TString), fld("A2", TInt64))
			eb := msg("EmbB", nil, fld("B1", TString), fld("B2", TBool))
			return &FileSpec{Name: "p.proto", Msgs: []*M{ea, eb, msg("E22", nil, mfld("EmbA", "EmbA").embed(), fld("Own", TString), mfld("EmbB", "EmbB").embed())}}
		},
		Cfg: func() *Config { return baseConfig("E22") }})

	// four nullable embedded messages in one message (emission order of per-embed statements; used by the
	// determinism and sorted observations only)
	add(&Program{Name: "P-embed-4", ObserveOnly: true,
		File: func() *FileSpec {
			var ms []*M
			fs := []F{fld("Own", TString)}
			for _, n := range []string{"EmbP", "EmbQ", "EmbR", "EmbS"} {
				ms = append(ms, msg(n, nil, fld(n+"Str", TString), fld(n+"Num", TInt64)))
				fs = append(fs, mfld(n, n).embed())
			}
			return &FileSpec{Name: "p.proto", Msgs: append(ms, msg("E4", nil, fs...))}
		},
		Cfg: func() *Config { return baseConfig("E4") }})

	// a map of messages next to singular message fields named like the fields of a map entry (key / value)
	add(&Program{Name: "P-mapvalue", Quick: true, Bounds: map[string][2]int{"refresh": {2, 1}, "echo": {2, 1}, "corrupt": {1, 1}},
		File: func() *FileSpec {
			mv := msg("MV", nil, mapfld("Entries", mfld("v", "Leaf")), mfld("Value", "Leaf"), mfld("Key", "Leaf"), fld("Tag", TString))
			return &FileSpec{Name: "p.proto", Msgs: []*M{leafMsg(), mv, msg("MVR", nil, mfld("In", "MV").nonnull(), mfld("InP", "MV"))}}
		},
		Cfg: func() *Config { return baseConfig("MVR") }})

	// lower_snake proto field names in a message that occurs below the root in several contexts:
	// base of the C11 variants with Message.field keys
	add(&Program{Name: "P-lower", Quick: true,
		File: func() *FileSpec {
			lf := msg("Lf", nil, fld("note", TString), fld("hit_count", TInt64), fld("Label", TString))
			return &FileSpec{Name: "p.proto", Msgs: []*M{lf, msg("Lr", nil, mfld("first", "Lf"), mfld("Second", "Lf").nonnull(), mfld("items", "Lf").rep(), fld("own", TString))}}
		},
		Cfg: func() *Config { return baseConfig("Lr") }})

	// sort: true - the generated statements follow the Go names, so the branches of two oneof groups
	// and the flattened fields of an embedded message interleave with each other and with own fields
	add(&Program{Name: "P-sorted", Quick: true,
		File: func() *FileSpec {
			lim := msg("Lim", nil, fld("Burst", TInt64), fld("Zone", TString))
			srt := msg("Srt", []string{"Kind", "second_group"},
				fld("Apple", TString).oneof(0), fld("Banana", TInt64).oneof(1), fld("Cherry", TString).oneof(0), fld("Date", TBool).oneof(1),
				fld("Name", TString), mfld("Lim", "Lim").embed(), fld("Tags", TString).rep(),
				// Go names that differ by case only (Hostname / HostName), and an acronym
				fld("hostname", TString), fld("host_name", TString), fld("ID", TInt64))
			return &FileSpec{Name: "p.proto", Msgs: []*M{lim, srt}}
		},
		Cfg: func() *Config {
			c := baseConfig("Srt")
			c.Sort = true
			return c
		}})

	// a file with a go_package option (a real Go import path, as production .proto files have): the
	// path of a top-level message is then <proto package>.<Name> unless the generator maps it to the bare name
	add(&Program{Name: "P-gopkg", Quick: true,
		File: func() *FileSpec {
			g1 := msg("G1", nil, fld("Own", TString), mfld("Sub", "Leaf"), mfld("L", "Leaf").rep(), tsfld("Ts"), efld("Mode", "Mode"))
			return &FileSpec{Name: "p.proto", GoPackage: modName + "/" + pkgName + ";" + pkgName, Enums: []*d.EnumDescriptorProto{modeEnum()}, Msgs: []*M{leafMsg(), g1}}
		},
		Cfg: func() *Config { return baseConfig("G1") }})

	// schema_types: another Terraform type for single occurrences of a time field; time_type itself has a
	// type constructor, the overrides have one or none
	add(&Program{Name: "P-schematypes", Quick: true,
		File: func() *FileSpec {
			st := msg("ST", nil, tsfld("Day"), tsfld("At").nonnull(), tsfld("Plain"), fld("Own", TString), mfld("Sub", "STSub"))
			sub := msg("STSub", nil, tsfld("When"), tsfld("Other"))
			return &FileSpec{Name: "p.proto", Msgs: []*M{sub, st}}
		},
		Cfg: func() *Config {
			c := baseConfig("ST")
			c.TimeType.TypeConstructor = "UsePlainTime()"
			dt := SchemaType{Type: "DateType", ValueType: "DateValue", CastToType: "time.Time", CastFromType: "time.Time"}
			dc := dt
			dc.TypeConstructor = "UseRFC3339Date()"
			// an override that names the default framework types of a string field: same types, so the converters
			// must behave exactly as without it (zero value test included)
			str := SchemaType{Type: "github.com/hashicorp/terraform-plugin-framework/types.StringType", ValueType: "github.com/hashicorp/terraform-plugin-framework/types.String",
				CastToType: "string", CastFromType: "string"}
			c.SchemaTypes = map[string]SchemaType{"ST.Day": dt, "ST.At": dc, "STSub.When": dt, "ST.Own": str}
			return c
		}})

	add(&Program{Name: "P-empty", Quick: true,
		File: func() *FileSpec {
			em := msg("Em", []string{"O"}, fld("Own", TString), mfld("E", "Empty"), mfld("EV", "Empty").nonnull(),
				mfld("OE", "Empty").oneof(0), fld("OS", TString).oneof(0))
			return &FileSpec{Name: "p.proto", Msgs: []*M{emptyMsg(), em}}
		},
		Cfg: func() *Config { return baseConfig("Em") }})

	add(&Program{Name: "P-names", Quick: true,
		File: func() *FileSpec {
			nm := msg("Nm", nil, fld("Plain", TString), fld("Tagged", TString).json("x"), fld("TagOmit", TInt64).json("y,omitempty"),
				fld("TagDash", TString).json("-"), fld("TagEmpty", TBool).json(""), fld("lower_snake", TString),
				fld("OvPath", TString), fld("OvKey", TString).json("ignored"), mfld("Sub", "NmSub"), fld("HTTPServer", TString), fld("A1B2", TInt32),
				fld("s3_bucket", TString), fld("ipv4_addr", TString), fld("x_y_z", TBool), fld("oauth2_ttl", TInt64).stddur())
			sub := msg("NmSub", nil, fld("OvKey", TString).json("tagged_but_overridden"), fld("Deep", TString).json("deep_tag"))
			return &FileSpec{Name: "p.proto", Msgs: []*M{sub, nm}}
		},
		Cfg: func() *Config {
			c := baseConfig("Nm")
			c.NameOverrides = map[string]string{"Nm.OvPath": "by_path", "NmSub.OvKey": "by_key", "Nm.OvKey": "by_key_root", "Nm.Sub.Deep": "deep_by_path"}
			return c
		}})

	add(&Program{Name: "P-multi", Quick: true,
		File: func() *FileSpec {
			sh := msg("Shared", nil, fld("Str", TString), fld("Num", TInt64), fld("Flag", TBool))
			mid := msg("Mid", nil, mfld("Z", "Shared"), fld("Tag", TString))
			a := msg("A", nil, mfld("X", "Shared"), mfld("Y", "Mid").nonnull(), fld("Own", TString))
			b := msg("B", nil, mfld("X", "Shared"), fld("Own", TInt32))
			return &FileSpec{Name: "p.proto", Msgs: []*M{sh, mid, a, b}}
		},
		Cfg: func() *Config {
			c := baseConfig("A", "B")
			c.ExcludeFields = []string{"A.Y.Z.Flag", "Shared.Num"}
			return c
		}})
	add(&Program{Name: "P-custom", Quick: true, Families: []string{"custom", "schema"}, Support: customSupport, Extra: customHarness, SepHooks: customSepHooks,
		ExtraHs: []string{"Harness_Custom_To", "Harness_Custom_From"},
		File: func() *FileSpec {
			cu := msg("Cu", nil, fld("Own", TString), fld("C", TString).custom("StrCustom").nonnull().doc(" C is custom\n"),
				fld("CL", TBool).custom("BoolCustom").rep(), fld("CfgC", TString),
				// a custom type whose name keeps its underscore in the default hook suffix
				fld("CU", TString).custom("Under_Score").nonnull(),
				// message-typed fields declared custom through the configuration: repeated, singular, map
				mfld("Items", "Item").rep(), mfld("One", "Item"), mapfld("ByKey", mfld("v", "Item")))
			it := msg("Item", nil, fld("Name", TString))
			return &FileSpec{Name: "p.proto", Msgs: []*M{it, cu}}
		},
		Cfg: func() *Config {
			c := baseConfig("Cu")
			c.CustomTypes = map[string]string{"Cu.CfgC": "pkg/sub.CfgCustom", "Cu.Items": "ItemList", "Cu.One": "ItemOne", "Cu.ByKey": "ItemMap"}
			c.Suffixes = map[string]string{"BoolCustom": "BoolSpecial"}
			c.RequiredFields = []string{"Cu.C"}
			c.SensitiveFields = []string{"Cu.CfgC"}
			c.Validators = map[string][]string{"Cu.C": {"UseMockValidator()", "UseMockValidator()"}}
			c.PlanModifiers = map[string][]string{"Cu.CL": {"github.com/hashicorp/terraform-plugin-framework/tfsdk.RequiresReplace()"}}
			return c
		}})

	// a message type used as map value, list element and plain field next to same-named siblings:
	// base of the C11 variants that address fields through a map
	add(&Program{Name: "P-mapopt", Quick: true, Bounds: map[string][2]int{"refresh": {2, 1}, "echo": {2, 1}},
		File: func() *FileSpec {
			lb := msg("Label", nil, fld("Value", TString), fld("Name", TString), fld("Weight", TInt64))
			r := msg("R", nil, fld("Name", TString), fld("Value", TString), mfld("Primary", "Label"), mfld("List", "Label").rep(), mapfld("Labels", mfld("v", "Label")))
			return &FileSpec{Name: "p.proto", Msgs: []*M{lb, r}}
		},
		Cfg: func() *Config { return baseConfig("R") }})

	// kinds x contexts: oneofs, embeds, time/duration, float/uint64 inside map values, list elements
	// and non-nullable nested messages
	deepMsgs := func() (es, ep, dv, dl, dn *M) {
		es = msg("ES", nil, fld("EStr", TString), fld("ENum", TUint32))
		ep = msg("EP", nil, fld("PStr", TString), fld("PList", TString).rep())
		dv = msg("DV", []string{"Pick"}, fld("A", TString).oneof(0), mfld("B", "Leaf").oneof(0), fld("C", TFloat).oneof(0), fld("D", TUint64).oneof(0),
			tsfld("Ts"), mfld("ES", "ES").nonnull().embed())
		dl = msg("DL", nil, mfld("EP", "EP").embed(), dufld("Du"), fld("F32", TFloat), fld("U64", TUint64), efld("Mode", "Mode"), fld("Raw", TBytes))
		dn = msg("DN", []string{"choice"}, fld("x", TInt32).oneof(0), efld("y", "Mode").oneof(0), tsfld("Tsv").nonnull(), mapfld("Leaves", mfld("v", "Leaf")),
			fld("DuI", TInt64).stddur())
		return
	}
	deepBounds := map[string][2]int{"refresh": {1, 1}, "echo": {1, 1}, "from": {1, 1}, "rt": {2, 1}, "corrupt": {1, 1}}
	add(&Program{Name: "P-deep", Quick: false, Bounds: map[string][2]int{"refresh": {2, 1}, "echo": {2, 1}, "from": {2, 1}, "rt": {2, 1}, "corrupt": {1, 1}},
		File: func() *FileSpec {
			es, ep, dv, dl, dn := deepMsgs()
			d := msg("D", nil, mapfld("M", mfld("v", "DV")), mfld("L", "DL").rep(), mfld("N", "DN").nonnull(), mfld("NP", "DN"))
			return &FileSpec{Name: "p.proto", Enums: []*d2Enum{modeEnum()}, Msgs: []*M{leafMsg(), es, ep, dv, dl, dn, d}}
		},
		Cfg: func() *Config { return baseConfig("D") }})
	// the three parts of P-deep as separate small programs for the quick tier
	add(&Program{Name: "P-deep-m", Quick: true, Bounds: deepBounds,
		File: func() *FileSpec {
			es, _, dv, _, _ := deepMsgs()
			return &FileSpec{Name: "p.proto", Enums: []*d2Enum{modeEnum()}, Msgs: []*M{leafMsg(), es, dv, msg("DM", nil, mapfld("M", mfld("v", "DV")), mfld("One", "DV"))}}
		},
		Cfg: func() *Config { return baseConfig("DM") }})
	add(&Program{Name: "P-deep-l", Quick: true, Bounds: deepBounds,
		File: func() *FileSpec {
			_, ep, _, dl, _ := deepMsgs()
			return &FileSpec{Name: "p.proto", Enums: []*d2Enum{modeEnum()}, Msgs: []*M{ep, dl, msg("DLs", nil, mfld("L", "DL").rep(), mfld("LV", "DL").nonnull().rep())}}
		},
		Cfg: func() *Config { return baseConfig("DLs") }})
	add(&Program{Name: "P-deep-n", Quick: true, Bounds: deepBounds,
		File: func() *FileSpec {
			_, _, _, _, dn := deepMsgs()
			return &FileSpec{Name: "p.proto", Enums: []*d2Enum{modeEnum()}, Msgs: []*M{leafMsg(), dn, msg("DNs", nil, mfld("N", "DN").nonnull(), mfld("NP", "DN"))}}
		},
		Cfg: func() *Config { return baseConfig("DNs") }})

	// a nullable embedded message with scalar, list, object and map children next to a second one
	add(&Program{Name: "P-embed-mix", Quick: true, Bounds: map[string][2]int{"refresh": {2, 1}, "echo": {2, 1}},
		File: func() *FileSpec {
			mix := msg("Mix", nil, fld("MStr", TString), fld("MList", TInt64).rep(), mfld("MSub", "Leaf"), mapfld("MMap", fld("v", TString)), fld("MFlag", TBool))
			two := msg("Two", nil, fld("TNum", TInt32), tsfld("TTs"))
			em := msg("EM", nil, fld("Own", TString), mfld("Mix", "Mix").embed(), mfld("Two", "Two").embed(), fld("Tail", TString))
			hold := msg("EMHold", nil, mfld("Item", "EM"), mfld("Items", "EM").rep())
			return &FileSpec{Name: "p.proto", Msgs: []*M{leafMsg(), mix, two, em, hold}}
		},
		Cfg: func() *Config { return baseConfig("EM", "EMHold") }})

	// a map of messages and a list of messages declared in a nested (non-root) message
	add(&Program{Name: "P-mapnest", Quick: true, Bounds: map[string][2]int{"refresh": {2, 1}, "echo": {2, 1}, "corrupt": {2, 1}},
		File: func() *FileSpec {
			in := msg("In2", nil, mapfld("Leaves", mfld("v", "Leaf")), mfld("Ls", "Leaf").rep(), fld("Tag", TString))
			r := msg("R2", nil, mfld("In", "In2").nonnull(), mfld("InP", "In2"), mapfld("Top", mfld("v", "Leaf").nonnull()))
			return &FileSpec{Name: "p.proto", Msgs: []*M{leafMsg(), in, r}}
		},
		Cfg: func() *Config {
			c := baseConfig("R2")
			// full-path keys through a map / a list inside a nested message, and one Message.Field key
			c.NameOverrides = map[string]string{"R2.In.Leaves.Str": "leaf_str_in_map", "R2.InP.Ls.Num": "num_in_list", "In2.Tag": "tag_by_key"}
			return c
		}})

	// messages declared top-down (container before the types it nests): base of the C12 selections
	add(&Program{Name: "P-order", Quick: true,
		File: func() *FileSpec {
			top := msg("Top", nil, mfld("M", "Mid"), mfld("L", "Leaf").rep(), fld("Own", TString))
			mid := msg("Mid", nil, mfld("X", "Leaf").nonnull(), fld("Tag", TString))
			return &FileSpec{Name: "p.proto", Msgs: []*M{top, mid, leafMsg()}}
		},
		Cfg: func() *Config { return baseConfig("Top", "Mid", "Leaf") }})

	// documented fields around fields that produce no attribute (excluded) or several (embedded): the
	// description of a field is the comment of that field, wherever it is declared (C10, C15, C12)
	add(&Program{Name: "P-docs", Quick: true,
		File: func() *FileSpec {
			e1 := msg("DE1", nil, fld("EmbA", TString).doc(" EmbA of the embedded message\n"), fld("EmbB", TInt64).doc(" EmbB of the embedded message\n"))
			e2 := msg("DE2", nil, fld("ValA", TString).doc(" ValA (embedded by value)\n"), fld("ValB", TBool))
			dm := msg("Doc", []string{"Pick"},
				fld("First", TString).doc(" First field\n"),
				fld("Skip", TString).doc(" Skip is excluded\n"),
				fld("Second", TInt64).doc(" Second field\n"),
				mfld("DE1", "DE1").embed().doc(" embedded pointer\n"),
				fld("Third", TBool).doc(" Third field\n"),
				mfld("DE2", "DE2").nonnull().embed(),
				fld("Fourth", TString).rep().doc(" Fourth field\n"),
				fld("PA", TString).oneof(0).doc(" branch PA\n"), fld("PB", TInt64).oneof(0).doc(" branch PB\n"),
				fld("Last", TString).doc(" Last field\n")).doc(" Doc is documented\n")
			return &FileSpec{Name: "p.proto", Msgs: []*M{e1, e2, dm}}
		},
		Cfg: func() *Config {
			c := baseConfig("Doc")
			c.ExcludeFields = []string{"Doc.Skip"}
			return c
		}})

	add(&Program{Name: "P-flags", Quick: true,
		File: func() *FileSpec {
			sub := msg("FlSub", nil, fld("X", TString).doc(" X of the sub message\n"), fld("Y", TString)).doc(" FlSub is nested\n")
			fl := msg("Fl", nil,
				fld("A", TString).doc(" A is required\n and validated\n"),
				fld("B", TInt64).doc("B is computed"),
				fld("C", TBool).doc("\n\n C is sensitive.  \r\n   Second line\twith tab \n\n"),
				mfld("Sub", "FlSub").doc(" Sub message\n"), mfld("L", "FlSub").rep(), fld("Plain", TString),
				fld("Roles", TString).rep(), mapfld("Labels", fld("v", TString)), mapfld("Subs", mfld("v", "FlSub")), fld("Seen", TString).rep())
			return &FileSpec{Name: "p.proto", Msgs: []*M{sub, fl}}
		},
		Cfg: func() *Config {
			c := baseConfig("Fl")
			c.RequiredFields = []string{"Fl.A", "FlSub.X", "Fl.Roles", "Fl.Labels", "Fl.L", "Fl.Subs"}
			c.ComputedFields = []string{"Fl.B", "Fl.Sub.Y", "Fl.C", "Fl.Seen", "Fl.A", "FlSub.X", "Fl.Roles"}
			c.SensitiveFields = []string{"Fl.C", "FlSub.Y", "Fl.Sub", "Fl.Subs", "Fl.Labels", "Fl.L"}
			c.UseStateForUnknownByDefault = true
			c.Validators = map[string][]string{"Fl.A": {"UseMockValidator()"}, "FlSub.X": {"UseMockValidator()", "UseMockValidator()"}}
			c.PlanModifiers = map[string][]string{"Fl.C": {"github.com/hashicorp/terraform-plugin-framework/tfsdk.RequiresReplace()"}}
			c.InjectedFields = map[string][]Injected{
				"Fl":     {{Name: "id", Type: "github.com/hashicorp/terraform-plugin-framework/types.StringType", Computed: true}},
				"Fl.Sub": {{Name: "extra", Type: "github.com/hashicorp/terraform-plugin-framework/types.Int64Type", Optional: true, Validators: []string{"UseMockValidator()"}}},
				// keyed by the bare message name: applies to FlSub as a root type only (it is not selected here), never to its nested occurrences
				"FlSub": {{Name: "leak", Type: "github.com/hashicorp/terraform-plugin-framework/types.StringType", Computed: true}},
			}
			return c
		}})
	return ps
}

func findProgram(name string) *Program {
	for _, p := range programs() {
		if p.Name == name {
			return p
		}
	}
	return nil
}

// Support and harness of P-custom (C17): the three hooks record their calls and return values that
// carry their arguments, so the harness can tell exactly what the generated code passed and stored.
const customSupport = `
type hookType struct{ attr.Type }

func (hookType) Equal(o attr.Type) bool { _, ok := o.(hookType); return ok }

// hookValue is what the CopyTo hooks return: it carries the arguments of the call.
type hookValue struct {
	attr.Value
	Hook     string
	Arg      string
	ArgLen   int
	TypeSeen bool
	PrevSeen bool
}

var hookCalls = map[string]int{}

func countHook(n string) {
	if hookCalls == nil {
		hookCalls = map[string]int{}
	}
	hookCalls[n]++
}

// CustomValueForTest: an attribute value of the hook type (used when a conforming object is drawn).
func CustomValueForTest() attr.Value { return hookValue{Hook: "drawn"} }

func customValue_StrCustom() attr.Value       { return hookValue{Hook: "drawn"} }
func customValue_BoolSpecial() attr.Value     { return hookValue{Hook: "drawn"} }
func customValue_pkgsubCfgCustom() attr.Value { return hookValue{Hook: "drawn"} }
func customValue_ItemList() attr.Value        { return hookValue{Hook: "drawn"} }
func customValue_Under_Score() attr.Value     { return hookValue{Hook: "drawn"} }
func customAttrType_Under_Score() attr.Type   { return hookType{} }
func GenSchemaUnder_Score(_ context.Context, a tfsdk.Attribute) tfsdk.Attribute { a.Type = hookType{}; return a }
func CopyToUnder_Score(diags diag.Diagnostics, obj Under_Score, t attr.Type, v attr.Value) attr.Value {
	countHook("CopyToUnder_Score")
	if obj == "" {
		return nil // a hook may return a nil value (e.g. on its error path): that is what gets stored
	}
	_, ok := t.(hookType)
	return hookValue{Hook: "CopyToUnder_Score", Arg: string(obj), TypeSeen: ok, PrevSeen: v != nil}
}
func CopyFromUnder_Score(diags diag.Diagnostics, tf attr.Value, obj *Under_Score) {
	countHook("CopyFromUnder_Score")
	if h, ok := tf.(hookValue); ok {
		*obj = Under_Score(h.Arg)
	}
}
func customValue_ItemOne() attr.Value         { return hookValue{Hook: "drawn"} }
func customValue_ItemMap() attr.Value         { return hookValue{Hook: "drawn"} }

// CustomAttrTypeForTest exposes the hook attribute type to a separate target package.
func CustomAttrTypeForTest() attr.Type { return hookType{} }

func customAttrType_StrCustom() attr.Type     { return hookType{} }
func customAttrType_BoolSpecial() attr.Type   { return hookType{} }
func customAttrType_pkgsubCfgCustom() attr.Type { return hookType{} }
func customAttrType_ItemList() attr.Type      { return hookType{} }
func customAttrType_ItemOne() attr.Type       { return hookType{} }
func customAttrType_ItemMap() attr.Type       { return hookType{} }

func GenSchemaItemList(_ context.Context, a tfsdk.Attribute) tfsdk.Attribute { a.Type = hookType{}; return a }
func GenSchemaItemOne(_ context.Context, a tfsdk.Attribute) tfsdk.Attribute  { a.Type = hookType{}; return a }
func GenSchemaItemMap(_ context.Context, a tfsdk.Attribute) tfsdk.Attribute  { a.Type = hookType{}; return a }

func CopyToItemList(diags diag.Diagnostics, obj []*Item, t attr.Type, v attr.Value) attr.Value {
	countHook("CopyToItemList")
	_, ok := t.(hookType)
	return hookValue{Hook: "CopyToItemList", ArgLen: len(obj), TypeSeen: ok, PrevSeen: v != nil}
}
func CopyToItemOne(diags diag.Diagnostics, obj *Item, t attr.Type, v attr.Value) attr.Value {
	countHook("CopyToItemOne")
	_, ok := t.(hookType)
	n := 0
	if obj != nil {
		n = 1
	}
	return hookValue{Hook: "CopyToItemOne", ArgLen: n, TypeSeen: ok, PrevSeen: v != nil}
}
func CopyToItemMap(diags diag.Diagnostics, obj map[string]*Item, t attr.Type, v attr.Value) attr.Value {
	countHook("CopyToItemMap")
	_, ok := t.(hookType)
	return hookValue{Hook: "CopyToItemMap", ArgLen: len(obj), TypeSeen: ok, PrevSeen: v != nil}
}
func CopyFromItemList(diags diag.Diagnostics, tf attr.Value, obj *[]*Item) {
	countHook("CopyFromItemList")
	if h, ok := tf.(hookValue); ok {
		*obj = make([]*Item, h.ArgLen)
	}
}
func CopyFromItemOne(diags diag.Diagnostics, tf attr.Value, obj **Item) {
	countHook("CopyFromItemOne")
	if h, ok := tf.(hookValue); ok {
		*obj = &Item{Name: h.Arg}
	}
}
func CopyFromItemMap(diags diag.Diagnostics, tf attr.Value, obj *map[string]*Item) {
	countHook("CopyFromItemMap")
	if h, ok := tf.(hookValue); ok {
		*obj = map[string]*Item{h.Arg: nil}
	}
}

func GenSchemaStrCustom(_ context.Context, a tfsdk.Attribute) tfsdk.Attribute { a.Type = hookType{}; return a }
func GenSchemaBoolSpecial(_ context.Context, a tfsdk.Attribute) tfsdk.Attribute { a.Type = hookType{}; return a }
func GenSchemapkgsubCfgCustom(_ context.Context, a tfsdk.Attribute) tfsdk.Attribute { a.Type = hookType{}; return a }

func CopyToStrCustom(diags diag.Diagnostics, obj StrCustom, t attr.Type, v attr.Value) attr.Value {
	countHook("CopyToStrCustom")
	_, ok := t.(hookType)
	return hookValue{Hook: "CopyToStrCustom", Arg: string(obj), TypeSeen: ok, PrevSeen: v != nil}
}
func CopyToBoolSpecial(diags diag.Diagnostics, obj []BoolCustom, t attr.Type, v attr.Value) attr.Value {
	countHook("CopyToBoolSpecial")
	_, ok := t.(hookType)
	return hookValue{Hook: "CopyToBoolSpecial", ArgLen: len(obj), TypeSeen: ok, PrevSeen: v != nil}
}
func CopyTopkgsubCfgCustom(diags diag.Diagnostics, obj string, t attr.Type, v attr.Value) attr.Value {
	countHook("CopyTopkgsubCfgCustom")
	_, ok := t.(hookType)
	return hookValue{Hook: "CopyTopkgsubCfgCustom", Arg: obj, TypeSeen: ok, PrevSeen: v != nil}
}
func CopyFromStrCustom(diags diag.Diagnostics, tf attr.Value, obj *StrCustom) {
	countHook("CopyFromStrCustom")
	if h, ok := tf.(hookValue); ok {
		*obj = StrCustom(h.Arg)
	}
}
func CopyFromBoolSpecial(diags diag.Diagnostics, tf attr.Value, obj *[]BoolCustom) {
	countHook("CopyFromBoolSpecial")
	if h, ok := tf.(hookValue); ok {
		*obj = make([]BoolCustom, h.ArgLen)
	}
}
func CopyFrompkgsubCfgCustom(diags diag.Diagnostics, tf attr.Value, obj *string) {
	countHook("CopyFrompkgsubCfgCustom")
	if h, ok := tf.(hookValue); ok {
		*obj = h.Arg
	}
}
`

const customHarness = `
func countWriteMissingC17(d diag.Diagnostics, path string) int {
	n := 0
	for _, x := range d {
		if m, ok := x.(attrWriteMissingDiag); ok && m.Path == path {
			n++
		}
	}
	return n
}

// Harness_Custom_To: CopyTo stores exactly what CopyTo<S>(diags, field, attribute type, current attribute value) returned.
func Harness_Custom_To() {
	ctx := context.Background()
	var obj Cu
	havoc_Cu(&obj)
	prev := vrt.Bool()
	dropType := vrt.Bool()
	at := attrTypes_Cu()
	if dropType {
		delete(at, "c")
	}
	tf := types.Object{AttrTypes: at}
	if prev {
		tf.Attrs = map[string]attr.Value{"c": hookValue{Hook: "previous"}, "cfg_c": hookValue{Hook: "previous"}}
	}
	hookCalls = map[string]int{}
	d := CopyCuToTerraform(ctx, &obj, &tf)
	vrt.CheckNoPanic("C17/Cu/copyto:no-panic")
	v, ok := tf.Attrs["c"].(hookValue)
	if dropType {
		vrt.Assert("C06+C17/Cu/c:missing-type-is-diagnostic", countWriteMissingC17(d, "Cu.C") == 1)
		vrt.Assert("C06+C17/Cu/c:hook-not-called-without-type", hookCalls["CopyToStrCustom"] == 0)
	} else {
		vrt.Assert("C17/Cu/c:stores-hook-result", ok && v.Hook == "CopyToStrCustom")
		vrt.Assert("C17/Cu/c:hook-gets-field-value", v.Arg == string(obj.C))
		vrt.Assert("C17/Cu/c:hook-gets-attribute-type", v.TypeSeen)
		vrt.Assert("C17/Cu/c:hook-gets-current-value", v.PrevSeen == prev)
		vrt.Assert("C17/Cu/c:hook-called-once", hookCalls["CopyToStrCustom"] == 1)
	}
	l, ok2 := tf.Attrs["cl"].(hookValue)
	vrt.Assert("C17/Cu/cl:stores-hook-result", ok2 && l.Hook == "CopyToBoolSpecial" && l.ArgLen == len(obj.CL) && l.TypeSeen && !l.PrevSeen)
	vrt.Assert("C17/Cu/cl:hook-called-once", hookCalls["CopyToBoolSpecial"] == 1)
	c, ok3 := tf.Attrs["cfg_c"].(hookValue)
	vrt.Assert("C17/Cu/cfg_c:configured-custom-type-uses-hook", ok3 && c.Hook == "CopyTopkgsubCfgCustom" && c.Arg == obj.CfgC && c.TypeSeen && c.PrevSeen == prev)
	own, ok4 := tf.Attrs["own"].(types.String)
	vrt.Assert("C17/Cu/own:ordinary-field-unaffected", ok4 && own.Value == obj.Own)
	cu, okU := tf.Attrs["cu"].(hookValue)
	if obj.CU == "" {
		raw, has := tf.Attrs["cu"]
		vrt.Assert("C17/Cu/cu:nil-hook-result-is-stored", has && raw == nil && hookCalls["CopyToUnder_Score"] == 1)
	} else {
		vrt.Assert("C17/Cu/cu:default-suffix-keeps-underscore", okU && cu.Hook == "CopyToUnder_Score" && cu.Arg == string(obj.CU) && hookCalls["CopyToUnder_Score"] == 1)
	}
	il, ok5 := tf.Attrs["items"].(hookValue)
	vrt.Assert("C17/Cu/items:repeated-message-custom-uses-hook", ok5 && il.Hook == "CopyToItemList" && il.ArgLen == len(obj.Items) && il.TypeSeen && !il.PrevSeen)
	vrt.Assert("C17/Cu/items:hook-called-once", hookCalls["CopyToItemList"] == 1)
	one, ok6 := tf.Attrs["one"].(hookValue)
	nOne := 0
	if obj.One != nil {
		nOne = 1
	}
	vrt.Assert("C17/Cu/one:message-custom-uses-hook", ok6 && one.Hook == "CopyToItemOne" && one.ArgLen == nOne && one.TypeSeen && !one.PrevSeen)
	vrt.Assert("C17/Cu/one:hook-called-once", hookCalls["CopyToItemOne"] == 1)
	bk, ok7 := tf.Attrs["by_key"].(hookValue)
	vrt.Assert("C17/Cu/by_key:map-message-custom-uses-hook", ok7 && bk.Hook == "CopyToItemMap" && bk.ArgLen == len(obj.ByKey) && bk.TypeSeen && !bk.PrevSeen)
	vrt.Assert("C17/Cu/by_key:hook-called-once", hookCalls["CopyToItemMap"] == 1)
	vrt.Reach("Custom/To/end")
}

// Harness_Custom_From: CopyFrom calls CopyFrom<S>(diags, attribute value, &field) exactly once and does not
// otherwise write the field; a missing attribute is still reported.
func Harness_Custom_From() {
	ctx := context.Background()
	arg := vrt.String()
	n := vrt.Len(2)
	missing := vrt.Bool()
	prior := vrt.String()
	tf := types.Object{AttrTypes: attrTypes_Cu(), Attrs: map[string]attr.Value{
		"own": types.String{Value: "x"}, "c": hookValue{Arg: arg}, "cl": hookValue{ArgLen: n}, "cfg_c": hookValue{Arg: arg},
		"items": hookValue{ArgLen: n}, "one": hookValue{Arg: arg}, "by_key": hookValue{Arg: arg}, "cu": hookValue{Arg: arg}}}
	if missing {
		delete(tf.Attrs, "c")
	}
	obj := Cu{C: StrCustom(prior)}
	hookCalls = map[string]int{}
	d := CopyCuFromTerraform(ctx, tf, &obj)
	vrt.CheckNoPanic("C17/Cu/copyfrom:no-panic")
	vrt.Assert("C17/Cu/c:copyfrom-hook-called-once", hookCalls["CopyFromStrCustom"] == 1)
	nm := 0
	for _, x := range d {
		if m, ok := x.(attrReadMissingDiag); ok && m.Path == "Cu.C" {
			nm++
		}
	}
	if missing {
		vrt.Assert("C06+C17/Cu/c:missing-attribute-is-diagnostic", nm == 1)
		vrt.Assert("C17/Cu/c:field-only-written-by-hook", string(obj.C) == prior)
	} else {
		vrt.Assert("C17/Cu/c:no-diagnostic", nm == 0)
		vrt.Assert("C17/Cu/c:field-is-hook-result", string(obj.C) == arg)
	}
	vrt.Assert("C17/Cu/cl:field-is-hook-result", len(obj.CL) == n && hookCalls["CopyFromBoolSpecial"] == 1)
	vrt.Assert("C17/Cu/cfg_c:field-is-hook-result", obj.CfgC == arg && hookCalls["CopyFrompkgsubCfgCustom"] == 1)
	vrt.Assert("C17/Cu/cu:field-is-hook-result", string(obj.CU) == arg && hookCalls["CopyFromUnder_Score"] == 1)
	vrt.Assert("C17/Cu/items:field-is-hook-result", len(obj.Items) == n && hookCalls["CopyFromItemList"] == 1)
	vrt.Assert("C17/Cu/one:field-is-hook-result", obj.One != nil && obj.One.Name == arg && hookCalls["CopyFromItemOne"] == 1)
	_, inMap := obj.ByKey[arg]
	vrt.Assert("C17/Cu/by_key:field-is-hook-result", len(obj.ByKey) == 1 && inMap && hookCalls["CopyFromItemMap"] == 1)
	vrt.Reach("Custom/From/end")
}
`

const customSepHooks = `package tb

import (
	"context"

	"github.com/hashicorp/terraform-plugin-framework/attr"
	"github.com/hashicorp/terraform-plugin-framework/diag"
	"github.com/hashicorp/terraform-plugin-framework/tfsdk"
	sp "vp/p"
)

func customAttrType_StrCustom() attr.Type       { return sp.CustomAttrTypeForTest() }
func customAttrType_BoolSpecial() attr.Type     { return sp.CustomAttrTypeForTest() }
func customAttrType_pkgsubCfgCustom() attr.Type { return sp.CustomAttrTypeForTest() }

func customValue_StrCustom() attr.Value       { return sp.CustomValueForTest() }
func customValue_BoolSpecial() attr.Value     { return sp.CustomValueForTest() }
func customValue_pkgsubCfgCustom() attr.Value { return sp.CustomValueForTest() }

func customAttrType_Under_Score() attr.Type { return sp.CustomAttrTypeForTest() }
func customValue_Under_Score() attr.Value   { return sp.CustomValueForTest() }
func GenSchemaUnder_Score(c context.Context, a tfsdk.Attribute) tfsdk.Attribute { return sp.GenSchemaUnder_Score(c, a) }
func CopyToUnder_Score(d diag.Diagnostics, o sp.Under_Score, t attr.Type, v attr.Value) attr.Value {
	return sp.CopyToUnder_Score(d, o, t, v)
}
func CopyFromUnder_Score(d diag.Diagnostics, tf attr.Value, o *sp.Under_Score) { sp.CopyFromUnder_Score(d, tf, o) }
func customAttrType_ItemList() attr.Type { return sp.CustomAttrTypeForTest() }
func customAttrType_ItemOne() attr.Type  { return sp.CustomAttrTypeForTest() }
func customAttrType_ItemMap() attr.Type  { return sp.CustomAttrTypeForTest() }
func customValue_ItemList() attr.Value   { return sp.CustomValueForTest() }
func customValue_ItemOne() attr.Value    { return sp.CustomValueForTest() }
func customValue_ItemMap() attr.Value    { return sp.CustomValueForTest() }

func GenSchemaItemList(c context.Context, a tfsdk.Attribute) tfsdk.Attribute { return sp.GenSchemaItemList(c, a) }
func GenSchemaItemOne(c context.Context, a tfsdk.Attribute) tfsdk.Attribute  { return sp.GenSchemaItemOne(c, a) }
func GenSchemaItemMap(c context.Context, a tfsdk.Attribute) tfsdk.Attribute  { return sp.GenSchemaItemMap(c, a) }
func CopyToItemList(d diag.Diagnostics, o []*sp.Item, t attr.Type, v attr.Value) attr.Value {
	return sp.CopyToItemList(d, o, t, v)
}
func CopyToItemOne(d diag.Diagnostics, o *sp.Item, t attr.Type, v attr.Value) attr.Value {
	return sp.CopyToItemOne(d, o, t, v)
}
func CopyToItemMap(d diag.Diagnostics, o map[string]*sp.Item, t attr.Type, v attr.Value) attr.Value {
	return sp.CopyToItemMap(d, o, t, v)
}
func CopyFromItemList(d diag.Diagnostics, tf attr.Value, o *[]*sp.Item)         { sp.CopyFromItemList(d, tf, o) }
func CopyFromItemOne(d diag.Diagnostics, tf attr.Value, o **sp.Item)            { sp.CopyFromItemOne(d, tf, o) }
func CopyFromItemMap(d diag.Diagnostics, tf attr.Value, o *map[string]*sp.Item) { sp.CopyFromItemMap(d, tf, o) }

func GenSchemaStrCustom(c context.Context, a tfsdk.Attribute) tfsdk.Attribute { return sp.GenSchemaStrCustom(c, a) }
func GenSchemaBoolSpecial(c context.Context, a tfsdk.Attribute) tfsdk.Attribute { return sp.GenSchemaBoolSpecial(c, a) }
func GenSchemapkgsubCfgCustom(c context.Context, a tfsdk.Attribute) tfsdk.Attribute {
	return sp.GenSchemapkgsubCfgCustom(c, a)
}
func CopyToStrCustom(d diag.Diagnostics, o sp.StrCustom, t attr.Type, v attr.Value) attr.Value {
	return sp.CopyToStrCustom(d, o, t, v)
}
func CopyToBoolSpecial(d diag.Diagnostics, o []sp.BoolCustom, t attr.Type, v attr.Value) attr.Value {
	return sp.CopyToBoolSpecial(d, o, t, v)
}
func CopyTopkgsubCfgCustom(d diag.Diagnostics, o string, t attr.Type, v attr.Value) attr.Value {
	return sp.CopyTopkgsubCfgCustom(d, o, t, v)
}
func CopyFromStrCustom(d diag.Diagnostics, tf attr.Value, o *sp.StrCustom)    { sp.CopyFromStrCustom(d, tf, o) }
func CopyFromBoolSpecial(d diag.Diagnostics, tf attr.Value, o *[]sp.BoolCustom) { sp.CopyFromBoolSpecial(d, tf, o) }
func CopyFrompkgsubCfgCustom(d diag.Diagnostics, tf attr.Value, o *string)   { sp.CopyFrompkgsubCfgCustom(d, tf, o) }
`
