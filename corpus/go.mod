module verif/corpus

go 1.18

require (
	github.com/gogo/protobuf v1.3.2
	google.golang.org/protobuf v1.28.0
	gopkg.in/yaml.v3 v3.0.1
)
