package main

// specgen, differential harnesses (translation validation of two emitted programs):
// variant A = same-package generation in package p, variant B = generated into
// package tb from a changed configuration / request, both over the structs of p.
// For all inputs: CopyTo results equal on the common attributes, CopyFrom results
// equal on the common fields; fields excluded in B stay untouched and unemitted.

import (
	"fmt"
	"strings"
)

// notEmitted: attributes that only variant A has (excluded in B) are absent from B's CopyTo result,
// at every depth (nested objects, list elements, map values).
func (g *Gen) notEmitted(oa, ob *Occ, pre string) string {
	name := "notEmitted_" + ob.ID
	if !g.once(name) {
		return name
	}
	var b strings.Builder
	w := func(format string, a ...interface{}) { fmt.Fprintf(&b, "\t"+format+"\n", a...) }
	w("_ = tf")
	inB := map[string]*Slot{}
	for _, s := range ob.Slots {
		inB[s.Attr] = s
	}
	for _, s := range oa.Slots {
		sb, ok := inB[s.Attr]
		if !ok {
			w(`{ _, has := tf.Attrs[%q]; vrt.Assert(%q+path+"/%s:excluded-not-emitted", !has) }`, s.Attr, pre, s.Attr)
			continue
		}
		if s.Sub == nil || sb.Sub == nil {
			continue
		}
		sub := g.notEmitted(s.Sub, sb.Sub, pre)
		switch s.Kind {
		case SMsg:
			w(`if v, ok := tf.Attrs[%q].(types.Object); ok && !v.Null { %s(v, path+"/%s") }`, s.Attr, sub, s.Attr)
		case SMsgList:
			w(`if c, ok := tf.Attrs[%q].(types.List); ok && !c.Null { for _, e := range c.Elems { if v, ok := e.(types.Object); ok && !v.Null { %s(v, path+"/%s[]") } } }`, s.Attr, sub, s.Attr)
		case SMsgMap:
			w(`if c, ok := tf.Attrs[%q].(types.Map); ok && !c.Null { for _, e := range c.Elems { if v, ok := e.(types.Object); ok && !v.Null { %s(v, path+"/%s[]") } } }`, s.Attr, sub, s.Attr)
		}
	}
	g.p("func %s(tf types.Object, path string) {\n%s}\n", name, b.String())
	return name
}

func (g *Gen) harnessDiff(oa, ob *Occ, prop string) {
	g.havocMsg(oa.Msg)
	g.attrTypes(oa)
	g.havocTF(oa)
	g.tfEq(ob)
	g.normEq(ob)
	ne := g.notEmitted(oa, ob, prop+"/diff/")
	g.SchemaProp = prop
	g.schemaCheck(ob)
	name := "Harness_Diff_" + oa.MsgName
	g.hs = append(g.hs, name)
	pre := prop + "/diff/"
	var ex strings.Builder
	// attributes / fields B excludes at the top level
	inB := map[string]bool{}
	for _, s := range ob.Slots {
		inB[s.Attr] = true
	}
	for _, s := range oa.Slots {
		if inB[s.Attr] || s.EmbedPtr != "" || s.Oneof != nil {
			continue
		}
		fmt.Fprintf(&ex, "\t{ _, has := tfb.Attrs[%q]; vrt.Assert(%q, !has) }\n", s.Attr, pre+oa.MsgName+"/"+s.Attr+":excluded-not-emitted")
		switch s.Kind {
		case SScalar:
			if !s.Leaf.Ptr {
				fmt.Fprintf(&ex, "\tvrt.Assert(%q, %s)\n", pre+oa.MsgName+"/"+s.Attr+":excluded-untouched", zeroExpr(s.Leaf, "pb"+s.Access))
			} else {
				fmt.Fprintf(&ex, "\tvrt.Assert(%q, pb%s == nil)\n", pre+oa.MsgName+"/"+s.Attr+":excluded-untouched", s.Access)
			}
		case SList, SMap, SMsgList, SMsgMap:
			fmt.Fprintf(&ex, "\tvrt.Assert(%q, pb%s == nil)\n", pre+oa.MsgName+"/"+s.Attr+":excluded-untouched", s.Access)
		case SMsg:
			if s.SubPtr {
				fmt.Fprintf(&ex, "\tvrt.Assert(%q, pb%s == nil)\n", pre+oa.MsgName+"/"+s.Attr+":excluded-untouched", s.Access)
			}
		}
	}
	// C15: a second read into the targets the first read filled (each variant into its own target): what a
	// variant leaves behind from an earlier read must not depend on the declaration order either
	reused := ""
	if prop == "C15" {
		reused = fmt.Sprintf(`	src2, _ := havocTF_%s(tfOpt{OneBranch: true})
	da3 := %sCopy%sFromTerraform(ctx, src2, &pa)
	db3 := Copy%sFromTerraform(ctx, src2, &pb)
	vrt.CheckNoPanic(%q)
	vrt.Assert(%q, !da3.HasError() && !db3.HasError())
	normEq_%s(&pa, &pb, %q, %q, %q)
`, oa.ID, g.FQ, oa.MsgName, oa.MsgName, pre+oa.MsgName+"/copyfrom-reused:no-panic", pre+oa.MsgName+"/copyfrom-reused:no-error-diagnostic",
			ob.ID, pre+"from-reused/", pre+"from-reused/", oa.MsgName)
	}
	g.p(`func %s() {
	ctx := context.Background()
	var obj %s%s
	havoc_%s(&obj)
	tfa := types.Object{AttrTypes: attrTypes_%s()}
	tfb := types.Object{AttrTypes: attrTypes_%s()}
	da := %sCopy%sToTerraform(ctx, &obj, &tfa)
	db := Copy%sToTerraform(ctx, &obj, &tfb)
	vrt.CheckNoPanic(%q)
	vrt.Assert(%q, !da.HasError() && !db.HasError())
	tfEq_%s(tfa, tfb, %q, %q)
	%s(tfb, %q)
	src, _ := havocTF_%s(tfOpt{OneBranch: true})
	var pa, pb %s%s
	da2 := %sCopy%sFromTerraform(ctx, src, &pa)
	db2 := Copy%sFromTerraform(ctx, src, &pb)
	vrt.CheckNoPanic(%q)
	vrt.Assert(%q, !da2.HasError() && !db2.HasError())
	normEq_%s(&pa, &pb, %q, %q, %q)
%s%s	// B's schema against the oracle built from B's configuration: the option hits exactly the addressed fields
	sb, dsb := GenSchema%s(ctx)
	vrt.Assert(%q, !dsb.HasError())
	schemaCheck_%s(sb.Attributes, %q)
	vrt.Reach("Diff/%s/end")
}
`, name, g.TQ, oa.MsgName, oa.MsgName, oa.ID, oa.ID,
		g.FQ, oa.MsgName, oa.MsgName, pre+oa.MsgName+"/copyto:no-panic", pre+oa.MsgName+"/copyto:no-error-diagnostic",
		ob.ID, pre+"to/", oa.MsgName, ne, oa.MsgName,
		oa.ID, g.TQ, oa.MsgName, g.FQ, oa.MsgName, oa.MsgName,
		pre+oa.MsgName+"/copyfrom:no-panic", pre+oa.MsgName+"/copyfrom:no-error-diagnostic",
		ob.ID, pre+"from/", pre+"from/", oa.MsgName, ex.String(), reused, oa.MsgName, pre+oa.MsgName+"/schema:no-error-diagnostic", ob.ID, oa.MsgName, oa.MsgName)
}
