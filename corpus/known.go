package main

import (
	"encoding/json"
	"io/ioutil"
	"regexp"
)

// Known is one entry of /verif/known-findings.json with status "known".
type Known struct {
	Property string `json:"property"`
	Label    string `json:"label"`  // regexp over assertion labels
	Excuse   string `json:"excuse"` // name of an input-class predicate specgen can emit
	What     string `json:"what"`
	re       *regexp.Regexp
}

var knownList []*Known

func loadKnown(path string) {
	if path == "" {
		return
	}
	b, err := ioutil.ReadFile(path)
	must(err)
	must(json.Unmarshal(b, &knownList))
	for _, k := range knownList {
		k.re = regexp.MustCompile(k.Label)
	}
}
