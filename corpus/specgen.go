package main

// specgen: emits plain, reflection-free Go specialised to each message
// occurrence: havoc functions, oracles (one labelled assertion per field path)
// and the harness entry points. The same text is executed symbolically by the
// engine and natively during replay.

import (
	"fmt"
	"sort"
	"strings"

	"github.com/gogo/protobuf/gogoproto"
	d "github.com/gogo/protobuf/protoc-gen-gogo/descriptor"
)

type Gen struct {
	sb   strings.Builder
	m    *Model
	TQ   string // qualifier of struct-package types ("" or "p.")
	SQ   string // qualifier of support TF types (TimeValue, ...)
	FQ   string // qualifier of the generated functions under test
	KL   int
	KM   int
	done map[string]bool
	hs   []string // harness names

	SchemaProp      string // differential harnesses: property id the schema labels are reported under
	HookPassThrough bool // GenSchema hooks of the program return their argument (corpus support code)
}

func (g *Gen) p(format string, a ...interface{}) {
	fmt.Fprintf(&g.sb, format, a...)
	g.sb.WriteByte('\n')
}

func (g *Gen) ty(s string) string { return strings.ReplaceAll(s, tqMark, g.TQ) }

func (g *Gen) once(key string) bool {
	if g.done[key] {
		return false
	}
	g.done[key] = true
	return true
}

var customUnderlying = map[string]string{"StrCustom": "string", "BoolCustom": "bool", "StringCustom": "string", "Under_Score": "string"}

// typeExprFor: the attr.Type expression of a configured time / duration type; P00 configures a
// constructor (UseRFC3339Time()).

// tfv qualifies a TF value/type name from the configuration (TimeValue -> SQ+TimeValue).
func (g *Gen) tfv(n string) string {
	if strings.HasPrefix(n, "types.") {
		return n
	}
	return g.SQ + n
}

func (g *Gen) leafGo(l *Leaf) string {
	if l.Qual {
		return g.TQ + l.GoType
	}
	return l.GoType
}

// draw returns a Go expression drawing an arbitrary value of the leaf's Go type.
func (g *Gen) draw(l *Leaf) string {
	var e string
	switch l.Class {
	case CInt, CDuration:
		switch {
		case l.Bits == 32 && l.Signed:
			e = "vrt.Int32()"
		case l.Bits == 32:
			e = "vrt.Uint32()"
		case l.Signed:
			e = "vrt.Int64()"
		default:
			e = "vrt.Uint64()"
		}
	case CFloat32:
		e = "vrt.Float32()"
	case CFloat64:
		e = "vrt.Float64()"
	case CBool:
		e = "vrt.Bool()"
	case CString:
		e = "vrt.String()"
	case CBytes:
		return "vrt.Bytes()"
	case CTime:
		return "vrt.Time()"
	}
	return g.leafGo(l) + "(" + e + ")"
}

func zeroExpr(l *Leaf, x string) string {
	switch l.Class {
	case CInt, CFloat32, CFloat64, CDuration:
		return "(" + x + " == 0)"
	case CBool:
		return "(" + x + " == false)"
	case CString:
		return "(" + x + ` == "")`
	case CBytes:
		return "(string(" + x + `) == "")`
	case CTime:
		return "(" + x + " == (time.Time{}))"
	}
	panic("zeroExpr")
}

func leafEq(l *Leaf, a, b string) string {
	switch l.Class {
	case CFloat32, CFloat64:
		return "(" + a + " == " + b + " || " + a + " != " + a + ")"
	case CBytes:
		return "(string(" + a + ") == string(" + b + "))"
	}
	return "(" + a + " == " + b + ")"
}

// toTF is the documented Terraform-side value of a Go leaf value x.
func toTF(l *Leaf, x string) string {
	return l.ValGo + "(" + x + ")"
}

// ---------- struct side: havoc per message type ----------

func (g *Gen) havocMsg(mt *d.DescriptorProto) {
	if !g.once("havoc_" + mt.GetName()) {
		return
	}
	m := g.m
	var subs []*d.DescriptorProto
	sub := func(f *d.FieldDescriptorProto) string {
		s := m.Msgs[localName(f.GetTypeName())]
		subs = append(subs, s)
		return s.GetName()
	}
	var b strings.Builder
	w := func(format string, a ...interface{}) { fmt.Fprintf(&b, "\t"+format+"\n", a...) }
	w("_ = p")
	for _, f := range mt.Field {
		if f.OneofIndex != nil {
			continue
		}
		gn := goCamel(f.GetName())
		if gogoproto.IsCustomType(f) {
			ct := gogoproto.GetCustomType(f)
			u := customUnderlying[ct]
			dr := map[string]string{"string": "vrt.String()", "bool": "vrt.Bool()"}[u]
			if f.GetLabel() == d.FieldDescriptorProto_LABEL_REPEATED {
				w("{ n := vrt.Len(%d); nb := vrt.Bool(); s := make([]%s%s, n); for i := 0; i < %d; i++ { x := %s%s(%s); if i < n { s[i] = x } }; if n == 0 && nb { s = nil }; p.%s = s }", g.KL, g.TQ, ct, g.KL, g.TQ, ct, dr, gn)
			} else if gogoproto.IsNullable(f) {
				w("{ b := vrt.Bool(); x := %s%s(%s); if b { p.%s = &x } }", g.TQ, ct, dr, gn)
			} else {
				w("p.%s = %s%s(%s)", gn, g.TQ, ct, dr)
			}
			continue
		}
		if me := m.mapEntry(mt, f); me != nil {
			vf := *me.Field[1]
			vf.Options = f.Options
			et := g.ty(m.goElemType(&vf))
			var dv string
			if vf.GetType() == TMessage && !isStd(&vf) {
				sn := sub(&vf)
				if gogoproto.IsNullable(f) {
					dv = fmt.Sprintf("vb := vrt.Bool(); var vv %s%s; havoc_%s(&vv); var v %s; if vb { v = &vv }", g.TQ, sn, sn, et)
				} else {
					dv = fmt.Sprintf("var v %s; havoc_%s(&v)", et, sn)
				}
			} else {
				l, _ := m.leafOf(&vf, true)
				if l == nil {
					continue
				}
				if l.Ptr {
					dv = fmt.Sprintf("vb := vrt.Bool(); vv := %s; var v %s; if vb { v = &vv }", g.draw(l), et)
				} else {
					dv = fmt.Sprintf("v := %s", g.draw(l))
				}
			}
			w("{ n := vrt.Len(%d); nb := vrt.Bool(); mm := map[string]%s{}; for i := 0; i < %d; i++ { k := vrt.String(); %s; if i < n { mm[k] = v } }; if n == 0 && nb { mm = nil }; p.%s = mm }", g.KM, et, g.KM, dv, gn)
			continue
		}
		rep := f.GetLabel() == d.FieldDescriptorProto_LABEL_REPEATED
		if f.GetType() == TMessage && !isStd(f) {
			sn := sub(f)
			fname := gn
			if gogoproto.IsEmbed(f) {
				fname = sn
			}
			switch {
			case rep && gogoproto.IsNullable(f):
				w("{ n := vrt.Len(%d); nb := vrt.Bool(); s := make([]*%s%s, n); for i := 0; i < %d; i++ { eb := vrt.Bool(); var e %s%s; havoc_%s(&e); if i < n && eb { s[i] = &e } }; if n == 0 && nb { s = nil }; p.%s = s }", g.KL, g.TQ, sn, g.KL, g.TQ, sn, sn, fname)
			case rep:
				w("{ n := vrt.Len(%d); nb := vrt.Bool(); s := make([]%s%s, n); for i := 0; i < %d; i++ { var e %s%s; havoc_%s(&e); if i < n { s[i] = e } }; if n == 0 && nb { s = nil }; p.%s = s }", g.KL, g.TQ, sn, g.KL, g.TQ, sn, sn, fname)
			case gogoproto.IsNullable(f):
				w("{ b := vrt.Bool(); var t %s%s; havoc_%s(&t); if b { p.%s = &t } }", g.TQ, sn, sn, fname)
			default:
				w("havoc_%s(&p.%s)", sn, fname)
			}
			continue
		}
		l, err := m.leafOf(f, false)
		if err != nil {
			continue
		}
		et := g.leafGo(l)
		switch {
		case rep && l.Ptr:
			w("{ n := vrt.Len(%d); nb := vrt.Bool(); s := make([]*%s, n); for i := 0; i < %d; i++ { eb := vrt.Bool(); e := %s; if i < n && eb { s[i] = &e } }; if n == 0 && nb { s = nil }; p.%s = s }", g.KL, et, g.KL, g.draw(l), gn)
		case rep:
			w("{ n := vrt.Len(%d); nb := vrt.Bool(); s := make([]%s, n); for i := 0; i < %d; i++ { e := %s; if i < n { s[i] = e } }; if n == 0 && nb { s = nil }; p.%s = s }", g.KL, et, g.KL, g.draw(l), gn)
		case l.Ptr:
			w("{ b := vrt.Bool(); t := %s; if b { p.%s = &t } }", g.draw(l), gn)
		default:
			w("p.%s = %s", gn, g.draw(l))
		}
	}
	for oi, od := range mt.OneofDecl {
		var branches []*d.FieldDescriptorProto
		for _, f := range mt.Field {
			if f.OneofIndex != nil && int(f.GetOneofIndex()) == oi {
				branches = append(branches, f)
			}
		}
		w("{ ch := vrt.Len(%d)", len(branches))
		for bi, f := range branches {
			gn := goCamel(f.GetName())
			wr := g.TQ + mt.GetName() + "_" + gn
			if f.GetType() == TMessage && !isStd(f) {
				sn := sub(f)
				w("  b%d := vrt.Bool(); var t%d %s%s; havoc_%s(&t%d); w%d := &%s{}; if b%d { w%d.%s = &t%d }", bi, bi, g.TQ, sn, sn, bi, bi, wr, bi, bi, gn, bi)
			} else {
				l, err := m.leafOf(f, false)
				if err != nil {
					w("  var w%d *%s", bi, wr)
					continue
				}
				if l.Ptr {
					w("  b%d := vrt.Bool(); t%d := %s; w%d := &%s{}; if b%d { w%d.%s = &t%d }", bi, bi, g.draw(l), bi, wr, bi, bi, gn, bi)
				} else {
					w("  w%d := &%s{%s: %s}", bi, wr, gn, g.draw(l))
				}
			}
		}
		w("  switch ch {")
		for bi := range branches {
			w("  case %d: p.%s = w%d", bi+1, goCamel(od.GetName()), bi)
		}
		w("  }")
		w("}")
	}
	g.p("func havoc_%s(p *%s%s) {\n%s}\n", mt.GetName(), g.TQ, mt.GetName(), b.String())
	for _, s := range subs {
		g.havocMsg(s)
	}
}

// ---------- Terraform side: attribute types (wantName / wantType) ----------

func (g *Gen) leafTypeExpr(l *Leaf) string { return g.tfv(l.TFType) }

func (g *Gen) slotTypeExpr(s *Slot) string {
	switch s.Kind {
	case SScalar:
		return g.leafTypeExpr(s.Leaf)
	case SList:
		return "types.ListType{ElemType: " + g.leafTypeExpr(s.Leaf) + "}"
	case SMap:
		return "types.MapType{ElemType: " + g.leafTypeExpr(s.Leaf) + "}"
	case SMsg:
		return "types.ObjectType{AttrTypes: attrTypes_" + s.Sub.ID + "()}"
	case SMsgList:
		return "types.ListType{ElemType: types.ObjectType{AttrTypes: attrTypes_" + s.Sub.ID + "()}}"
	case SMsgMap:
		return "types.MapType{ElemType: types.ObjectType{AttrTypes: attrTypes_" + s.Sub.ID + "()}}"
	case SCustom:
		return "customAttrType_" + s.Suffix + "()"
	}
	panic("slotTypeExpr")
}

func (g *Gen) elemTypeExpr(s *Slot) string {
	switch s.Kind {
	case SList, SMap:
		return g.leafTypeExpr(s.Leaf)
	case SMsgList, SMsgMap:
		return "types.ObjectType{AttrTypes: attrTypes_" + s.Sub.ID + "()}"
	}
	panic("elemTypeExpr")
}

func (g *Gen) attrTypes(o *Occ) {
	if !g.once("attrTypes_" + o.ID) {
		return
	}
	var b strings.Builder
	if o.Empty {
		fmt.Fprintf(&b, "\t\t%q: types.BoolType,\n", "active")
	}
	for _, s := range o.Slots {
		fmt.Fprintf(&b, "\t\t%q: %s,\n", s.Attr, g.slotTypeExpr(s))
	}
	for _, inj := range o.Injected {
		fmt.Fprintf(&b, "\t\t%q: %s,\n", inj.Name, injectedTypeExpr(inj.Type))
	}
	g.p("func attrTypes_%s() map[string]attr.Type {\n\treturn map[string]attr.Type{\n%s\t}\n}\n", o.ID, b.String())
	for _, s := range o.Slots {
		if s.Sub != nil {
			g.attrTypes(s.Sub)
		}
	}
}

func injectedTypeExpr(t string) string {
	if i := strings.LastIndex(t, "/"); i >= 0 {
		return t[i+1:]
	}
	return t
}

// ---------- oneof normal form ----------

func (g *Gen) oneofSel(o *Occ, grp *OneofGroup) string {
	name := "oneofSel_" + o.ID + "_" + grp.GoName
	if !g.once(name) {
		return name
	}
	var b strings.Builder
	for i, s := range grp.Slots {
		cond := ""
		switch {
		case s.Kind == SMsg:
			cond = "w." + s.GoName + " != nil"
		case s.Kind == SScalar && s.Leaf.Ptr:
			cond = "w." + s.GoName + " != nil"
		case s.Kind == SScalar:
			// a zero payload (also a zero by-value time/duration) is identified with "unset"
			cond = "!" + zeroExpr(s.Leaf, "w."+s.GoName)
		default:
			cond = "true"
		}
		fmt.Fprintf(&b, "\tif w, ok := p%s.(*%s%s); ok {\n\t\t_ = w\n\t\tif %s {\n\t\t\treturn %d\n\t\t}\n\t}\n", "."+grp.GoName, g.TQ, s.Wrapper, cond, i+1)
	}
	g.p("// %s: 0 = unset in normal form (nil, or a zero payload), k = k-th branch set\nfunc %s(p *%s%s) int {\n%s\treturn 0\n}\n", name, name, g.TQ, o.MsgName, b.String())
	return name
}

// ---------- C03: conformance of the CopyTo result ----------

func (g *Gen) conforms(o *Occ) {
	if !g.once("conforms_" + o.ID) {
		return
	}
	var b strings.Builder
	w := func(format string, a ...interface{}) { fmt.Fprintf(&b, "\t"+format+"\n", a...) }
	w("_ = tf")
	if o.Empty {
		w(`{ v, ok := tf.Attrs["active"].(types.Bool); vrt.Assert(lab+"/active:type", ok); vrt.Assert(lab+"/active:known", !v.Unknown) }`)
	}
	for _, s := range o.Slots {
		n := s.Attr
		switch s.Kind {
		case SScalar:
			w(`{ v, ok := tf.Attrs[%q].(%s); vrt.Assert(lab+"/%s:type", ok); vrt.Assert(lab+"/%s:known", !v.Unknown) }`, n, g.tfv(s.Leaf.TFVal), n, n)
		case SList, SMap, SMsgList, SMsgMap:
			ct := "types.List"
			if s.Kind == SMap || s.Kind == SMsgMap {
				ct = "types.Map"
			}
			w(`{ c, ok := tf.Attrs[%q].(%s); vrt.Assert(lab+"/%s:type", ok); vrt.Assert(lab+"/%s:known", !c.Unknown)`, n, ct, n, n)
			w(`  vrt.Assert(lab+"/%s:elemtype", vrt.SameType(c.ElemType, %s))`, n, g.elemTypeExpr(s))
			w(`  if !c.Null { for _, e := range c.Elems {`)
			if s.Kind == SList || s.Kind == SMap {
				w(`    v, ok := e.(%s); vrt.Assert(lab+"/%s[]:type", ok); vrt.Assert(lab+"/%s[]:known", !v.Unknown)`, g.tfv(s.Leaf.TFVal), n, n)
			} else {
				w(`    v, ok := e.(types.Object); vrt.Assert(lab+"/%s[]:type", ok); vrt.Assert(lab+"/%s[]:known", !v.Unknown)`, n, n)
				w(`    vrt.Assert(lab+"/%s[]:attrtypes", vrt.SameType(types.ObjectType{AttrTypes: v.AttrTypes}, %s))`, n, g.elemTypeExpr(s))
				w(`    if ok && !v.Null { conforms_%s(v, lab+"/%s[]") }`, s.Sub.ID, n)
			}
			w(`  } } }`)
		case SMsg:
			w(`{ v, ok := tf.Attrs[%q].(types.Object); vrt.Assert(lab+"/%s:type", ok); vrt.Assert(lab+"/%s:known", !v.Unknown)`, n, n, n)
			w(`  vrt.Assert(lab+"/%s:attrtypes", vrt.SameType(types.ObjectType{AttrTypes: v.AttrTypes}, %s))`, n, g.slotTypeExpr(s))
			w(`  if ok && !v.Null { conforms_%s(v, lab+"/%s") } }`, s.Sub.ID, n)
		case SCustom:
			// delegated to the user's hooks (C17)
		}
	}
	for _, inj := range o.Injected {
		w(`{ _, has := tf.Attrs[%q]; vrt.Assert(lab+"/%s:injected-attribute-untouched", !has) }`, inj.Name, inj.Name)
	}
	g.p("func conforms_%s(tf types.Object, lab string) {\n%s}\n", o.ID, b.String())
	for _, s := range o.Slots {
		if s.Sub != nil {
			g.conforms(s.Sub)
		}
	}
}

// ---------- C20 / C07(to): null-ness of the CopyTo result on an empty target ----------

func (g *Gen) nullIffZero(o *Occ) {
	if !g.once("nullIffZero_" + o.ID) {
		return
	}
	var b strings.Builder
	w := func(format string, a ...interface{}) { fmt.Fprintf(&b, "\t"+format+"\n", a...) }
	w("_, _ = tf, p")
	if o.Empty {
		w(`{ v, _ := tf.Attrs["active"].(types.Bool); vrt.Assert("C20/"+path+"/active:placeholder-null", v.Null) }`)
	}
	for _, grp := range o.Oneofs {
		if len(grp.Slots) == 0 {
			continue
		}
		sel := g.oneofSel(o, grp)
		w("{ sel := %s(p); _ = sel", sel)
		for i, s := range grp.Slots {
			n := s.Attr
			vt := "types.Object"
			if s.Kind == SScalar {
				vt = g.tfv(s.Leaf.TFVal)
			}
			if s.Kind == SCustom {
				continue
			}
			w(`  { v, _ := tf.Attrs[%q].(%s)`, n, vt)
			w(`    if p.%s == nil { vrt.Assert("C20/"+path+"/%s:unset-oneof-null", v.Null) }`, grp.GoName, n)
			// inactive branch (another wrapper or none) => null
			w(`    if _, act := p.%s.(*%s%s); !act { vrt.Assert("C07/"+path+"/%s:inactive-null", v.Null) }`, grp.GoName, g.TQ, s.Wrapper, n)
			if s.Kind == SScalar && !s.Leaf.HasZero && !s.Leaf.Ptr {
				w(`    if sel == %d { vrt.Assert("C07/"+path+"/%s:active-nonnull", !v.Null) }`, i+1, n)
				// time and duration held by value are always rendered once their branch is the active one
				w(`    if _, act := p.%s.(*%s%s); act { vrt.Assert("C20/"+path+"/%s:by-value-time-duration-rendered", !v.Null) }`, grp.GoName, g.TQ, s.Wrapper, n)
			} else {
				w(`    if _, act := p.%s.(*%s%s); act { vrt.Assert("C07/"+path+"/%s:active-nonnull-iff-nonzero", v.Null == (sel != %d)) }`, grp.GoName, g.TQ, s.Wrapper, n, i+1)
				if s.Kind == SScalar && s.Leaf.HasZero {
					// C20: "null exactly when the field holds its zero value" also for the branch a oneof holds
					w(`    if _, act := p.%s.(*%s%s); act { vrt.Assert("C20/"+path+"/%s:active-branch-null-iff-zero", v.Null == (sel != %d)) }`, grp.GoName, g.TQ, s.Wrapper, n, i+1)
				}
			}
			if s.Kind == SMsg {
				w(`    if wv, ok := p.%s.(*%s%s); ok && wv.%s != nil && !v.Null { nullIffZero_%s(v, wv.%s, path+"/%s") }`, grp.GoName, g.TQ, s.Wrapper, s.GoName, s.Sub.ID, s.GoName, n)
			}
			w("  }")
		}
		w("}")
	}
	for _, s := range o.Slots {
		if s.Oneof != nil {
			continue
		}
		n := s.Attr
		x := "p" + s.Access
		emb := ""
		embOr := ""
		if s.EmbedPtr != "" {
			emb = "p" + s.EmbedPtr + " != nil && "
			embOr = "p" + s.EmbedPtr + " == nil || "
		}
		switch s.Kind {
		case SScalar:
			switch {
			case s.Leaf.Ptr && s.EmbedPtr == "":
				w(`{ v, _ := tf.Attrs[%q].(%s); vrt.Assert("C20/"+path+"/%s:null-iff-nil", v.Null == (%s == nil))`, n, g.tfv(s.Leaf.TFVal), n, x)
				w(`  if %s != nil && !v.Null { vrt.Assert("C02/"+path+"/%s:attribute-carries-its-field", %s) } }`, x, n, tfLeafEq(s.Leaf, "v.Value", toTF(s.Leaf, "*"+x)))
			case s.Leaf.Ptr:
				w(`{ v, _ := tf.Attrs[%q].(%s); vrt.Assert("C20/"+path+"/%s:null-iff-nil", v.Null == (%s%s == nil)) }`, n, g.tfv(s.Leaf.TFVal), n, embOr, x)
			case s.Leaf.HasZero:
				w(`{ v, _ := tf.Attrs[%q].(%s); vrt.Assert("C20/"+path+"/%s:null-iff-zero", v.Null == (%s%s))`, n, g.tfv(s.Leaf.TFVal), n, embOr, zeroExpr(s.Leaf, x))
				// C02: the attribute named after this field carries this field's value
				w(`  if %s!v.Null { vrt.Assert("C02/"+path+"/%s:attribute-carries-its-field", %s) } }`, emb, n, tfLeafEq(s.Leaf, "v.Value", toTF(s.Leaf, x)))
			default:
				// time and duration held by value: excluded from zero-is-null, always rendered (inside a
				// nullable embedded message: whenever that message is there)
				w(`{ v, _ := tf.Attrs[%q].(%s); if %strue { vrt.Assert("C20/"+path+"/%s:by-value-time-duration-rendered", !v.Null) } }`, n, g.tfv(s.Leaf.TFVal), emb, n)
			}
		case SList, SMap, SMsgList, SMsgMap:
			ct := "types.List"
			if s.Kind == SMap || s.Kind == SMsgMap {
				ct = "types.Map"
			}
			w(`{ c, _ := tf.Attrs[%q].(%s); vrt.Assert("C20/"+path+"/%s:null-iff-empty", c.Null == (%slen(%s) == 0)) }`, n, ct, n, embOr, x)
		case SMsg:
			if s.SubPtr {
				w(`{ v, _ := tf.Attrs[%q].(types.Object); vrt.Assert("C20/"+path+"/%s:null-iff-nil", v.Null == (%s%s == nil))`, n, n, embOr, x)
				w(`  if %s%s != nil && !v.Null { nullIffZero_%s(v, %s, path+"/%s") } }`, emb, x, s.Sub.ID, x, n)
			} else {
				// a message held by value is never null - also inside a nullable embedded message that is nil
				w(`{ v, _ := tf.Attrs[%q].(types.Object); vrt.Assert("C20/"+path+"/%s:never-null", !v.Null)`, n, n)
				w(`  if %s!v.Null { nullIffZero_%s(v, &%s, path+"/%s") } }`, emb, s.Sub.ID, x, n)
			}
		}
	}
	g.p("func nullIffZero_%s(tf types.Object, p *%s%s, path string) {\n%s}\n", o.ID, g.TQ, o.MsgName, b.String())
	for _, s := range o.Slots {
		if s.Sub != nil && s.Kind == SMsg {
			g.nullIffZero(s.Sub)
		}
	}
}

// ---------- C04 / C19: normal-form equality of two struct values ----------

// cmpLeaf emits the comparison of two leaf values (pointer-backed or not).
func cmpLeaf(w func(string, ...interface{}), l *Leaf, a, b, lab string) {
	if l.Ptr {
		w(`vrt.Assert(pl+path+"%s:nil", (%s == nil) == (%s == nil))`, lab, a, b)
		w(`if %s != nil && %s != nil { vrt.Assert(pl+path+"%s", %s) }`, a, b, lab, leafEq(l, "*"+a, "*"+b))
		return
	}
	w(`vrt.Assert(pl+path+"%s", %s)`, lab, leafEq(l, a, b))
}

func (g *Gen) slotZero(s *Slot, base string) string {
	x := base + s.Access
	switch s.Kind {
	case SScalar:
		if s.Leaf.Ptr {
			return "(" + x + " == nil)"
		}
		return zeroExpr(s.Leaf, x)
	case SList, SMap, SMsgList, SMsgMap:
		return "(len(" + x + ") == 0)"
	case SMsg:
		if s.SubPtr {
			return "(" + x + " == nil)"
		}
		g.allZero(s.Sub)
		return "allZero_" + s.Sub.ID + "(&" + x + ")"
	}
	return "true"
}

func (g *Gen) allZero(o *Occ) {
	if !g.once("allZero_" + o.ID) {
		return
	}
	var conds []string
	for _, s := range o.Slots {
		if s.Oneof != nil || s.EmbedPtr != "" {
			continue
		}
		conds = append(conds, g.slotZero(s, "p"))
	}
	for _, grp := range o.Oneofs {
		if len(grp.Slots) > 0 {
			conds = append(conds, g.oneofSel(o, grp)+"(p) == 0")
		}
	}
	if len(conds) == 0 {
		conds = []string{"true"}
	}
	g.p("func allZero_%s(p *%s%s) bool {\n\treturn %s\n}\n", o.ID, g.TQ, o.MsgName, strings.Join(conds, " &&\n\t\t"))
}

func (g *Gen) normEq(o *Occ) {
	if !g.once("normEq_" + o.ID) {
		return
	}
	var b strings.Builder
	w := func(format string, a ...interface{}) { fmt.Fprintf(&b, "\t"+format+"\n", a...) }
	w("_, _, _, _ = a, b, ps, pl")
	emit := func(s *Slot) {
		xa, xb := "a"+s.Access, "b"+s.Access
		lab := "." + s.GoName
		switch s.Kind {
		case SScalar:
			cmpLeaf(w, s.Leaf, xa, xb, lab)
		case SList:
			// (leaf prefix: losing or gaining an element of a scalar list / map is a loss of scalar values - C19 as well as C04)
			w(`vrt.Assert(pl+path+"%s:len", len(%s) == len(%s))`, lab, xa, xb)
			w(`for i := range %s { if i < len(%s) {`, xa, xb)
			cmpLeaf(w, s.Leaf, xa+"[i]", xb+"[i]", lab+"[]")
			w(`} }`)
		case SMap:
			w(`vrt.Assert(pl+path+"%s:len", len(%s) == len(%s))`, lab, xa, xb)
			w(`for k, va := range %s { vb, ok := %s[k]; vrt.Assert(pl+path+"%s:key", ok); if ok {`, xa, xb, lab)
			cmpLeaf(w, s.Leaf, "va", "vb", lab+"[]")
			w(`} }`)
		case SMsg:
			if s.SubPtr {
				w(`vrt.Assert(ps+path+"%s:nil", (%s == nil) == (%s == nil))`, lab, xa, xb)
				w(`if %s != nil && %s != nil { normEq_%s(%s, %s, ps, pl, path+"%s") }`, xa, xb, s.Sub.ID, xa, xb, lab)
			} else {
				w(`normEq_%s(&%s, &%s, ps, pl, path+"%s")`, s.Sub.ID, xa, xb, lab)
			}
		case SMsgList:
			w(`vrt.Assert(ps+path+"%s:len", len(%s) == len(%s))`, lab, xa, xb)
			w(`for i := range %s { if i < len(%s) {`, xa, xb)
			if s.SubPtr {
				w(`vrt.Assert(ps+path+"%s[]:nil", (%s[i] == nil) == (%s[i] == nil))`, lab, xa, xb)
				w(`if %s[i] != nil && %s[i] != nil { normEq_%s(%s[i], %s[i], ps, pl, path+"%s[]") }`, xa, xb, s.Sub.ID, xa, xb, lab)
			} else {
				w(`normEq_%s(&%s[i], &%s[i], ps, pl, path+"%s[]")`, s.Sub.ID, xa, xb, lab)
			}
			w(`} }`)
		case SMsgMap:
			w(`vrt.Assert(ps+path+"%s:len", len(%s) == len(%s))`, lab, xa, xb)
			w(`for k, va := range %s { vb, ok := %s[k]; vrt.Assert(ps+path+"%s:key", ok); if ok {`, xa, xb, lab)
			if s.SubPtr {
				w(`vrt.Assert(ps+path+"%s[]:nil", (va == nil) == (vb == nil))`, lab)
				w(`if va != nil && vb != nil { normEq_%s(va, vb, ps, pl, path+"%s[]") }`, s.Sub.ID, lab)
			} else {
				w(`normEq_%s(&va, &vb, ps, pl, path+"%s[]")`, s.Sub.ID, lab)
			}
			w(`} }`)
		}
	}
	// plain slots
	for _, s := range o.Slots {
		if s.Oneof == nil && s.EmbedPtr == "" {
			emit(s)
		}
	}
	// nullable embedded messages: all-zero is identified with nil
	groups := map[string][]*Slot{}
	var order []string
	for _, s := range o.Slots {
		if s.EmbedPtr != "" {
			if _, ok := groups[s.EmbedPtr]; !ok {
				order = append(order, s.EmbedPtr)
			}
			groups[s.EmbedPtr] = append(groups[s.EmbedPtr], s)
		}
	}
	for _, ep := range order {
		var za, zb []string
		for _, s := range groups[ep] {
			za = append(za, g.slotZero(s, "a"))
			zb = append(zb, g.slotZero(s, "b"))
		}
		w(`{ an := a%s == nil || (%s); bn := b%s == nil || (%s)`, ep, strings.Join(za, " && "), ep, strings.Join(zb, " && "))
		w(`  vrt.Assert(ps+path+"%s:nil-or-zero", an == bn)`, ep)
		w(`  if !an && !bn {`)
		for _, s := range groups[ep] {
			emit(s)
		}
		w(`  } }`)
	}
	// oneof groups
	for _, grp := range o.Oneofs {
		if len(grp.Slots) == 0 {
			continue
		}
		sel := g.oneofSel(o, grp)
		w(`{ sa, sb := %s(a), %s(b); vrt.Assert(ps+path+".%s:branch", sa == sb)`, sel, sel, grp.GoName)
		for i, s := range grp.Slots {
			w(`  if sa == %d && sb == %d { wa, _ := a.%s.(*%s%s); wb, _ := b.%s.(*%s%s); _, _ = wa, wb`, i+1, i+1, grp.GoName, g.TQ, s.Wrapper, grp.GoName, g.TQ, s.Wrapper)
			switch s.Kind {
			case SScalar:
				cmpLeaf(w, s.Leaf, "wa."+s.GoName, "wb."+s.GoName, "."+s.GoName)
			case SMsg:
				w(`    normEq_%s(wa.%s, wb.%s, ps, pl, path+".%s")`, s.Sub.ID, s.GoName, s.GoName, s.GoName)
			}
			w(`  }`)
		}
		w(`}`)
	}
	g.p("func normEq_%s(a, b *%s%s, ps, pl, path string) {\n%s}\n", o.ID, g.TQ, o.MsgName, b.String())
	for _, s := range o.Slots {
		if s.Sub != nil {
			g.normEq(s.Sub)
		}
	}
}

// ---------- harness: round trip (C03, C04, C07-to, C19, C20) ----------

func (g *Gen) harnessRT(o *Occ) {
	g.havocMsg(o.Msg)
	g.attrTypes(o)
	g.conforms(o)
	g.nullIffZero(o)
	g.normEq(o)
	name := "Harness_RT_" + o.ID
	g.hs = append(g.hs, name)
	// C19: a time / duration held by value is always rendered, so a oneof branch of that kind survives
	// the round trip whatever its payload (zero included)
	var temporal strings.Builder
	for _, grp := range o.Oneofs {
		for _, sl := range grp.Slots {
			if sl.Kind == SScalar && !sl.Leaf.HasZero && !sl.Leaf.Ptr {
				fmt.Fprintf(&temporal, "\tif w, ok := obj.%s.(*%s%s); ok { w2, ok2 := back.%s.(*%s%s); vrt.Assert(\"C04+C19/%s.%s:by-value-temporal-branch-survives\", ok2 && %s) }\n",
					grp.GoName, g.TQ, sl.Wrapper, grp.GoName, g.TQ, sl.Wrapper, o.ID, sl.GoName, leafEq(sl.Leaf, "w."+sl.GoName, "w2."+sl.GoName))
			}
		}
	}
	g.p(`func %s() {
	ctx := context.Background()
	var obj %s%s
	havoc_%s(&obj)
	tf := types.Object{AttrTypes: attrTypes_%s()}
	d1 := %sCopy%sToTerraform(ctx, &obj, &tf)
	vrt.CheckNoPanic("C03/%s/copyto:no-panic")
	vrt.Assert("C03/%s/copyto:no-error-diagnostic", !d1.HasError())
	conforms_%s(tf, "C03/%s")
	nullIffZero_%s(tf, &obj, %q)
	var back %s%s
	d2 := %sCopy%sFromTerraform(ctx, tf, &back)
	vrt.CheckNoPanic("C04/%s/roundtrip:no-panic")
	vrt.Assert("C04/%s/copyfrom:no-error-diagnostic", !d2.HasError())
	normEq_%s(&obj, &back, "C04/", "C04+C19/", %q)
%s	vrt.Reach("RT/%s/end")
}
`, name, g.TQ, o.MsgName, o.MsgName, o.ID, g.FQ, o.MsgName, o.ID, o.ID, o.ID, o.ID, o.ID, o.ID, g.TQ, o.MsgName, g.FQ, o.MsgName, o.ID, o.ID, o.ID, o.ID, temporal.String(), o.ID)
}

func (g *Gen) file(pkg string, imports []string) string {
	var sb strings.Builder
	fmt.Fprintf(&sb, "// Code generated by /verif/corpus specgen. DO NOT EDIT.\npackage %s\n\nimport (\n", pkg)
	for _, i := range imports {
		fmt.Fprintf(&sb, "\t%s\n", i)
	}
	sb.WriteString(")\n\nvar _ = time.Now\nvar _ = context.Background\nvar _ attr.Type\nvar _ = types.StringType\nvar _ = vrt.Bool\nvar _ diag.Diagnostics\nvar _ tfsdk.Attribute\nvar _ = strconv.Itoa\n\n")
	sb.WriteString(tfOptDecl)
	sb.WriteString(g.sb.String())
	sort.Strings(g.hs)
	sb.WriteString("// Harnesses is the replay dispatch table.\nvar Harnesses = map[string]func(){\n")
	for _, h := range g.hs {
		fmt.Fprintf(&sb, "\t%q: %s,\n", h, h)
	}
	sb.WriteString("}\n")
	return sb.String()
}
