package main

// The oracle's own reading of a descriptor + configuration (README tables and
// property texts), independent of the generator: which attributes exist, how
// they are named and typed, and how the Go struct side looks (gogo's rules).

import (
	"fmt"
	"strings"

	"github.com/gogo/protobuf/gogoproto"
	d "github.com/gogo/protobuf/protoc-gen-gogo/descriptor"
)

type Class int

const (
	CInt Class = iota
	CFloat32
	CFloat64
	CBool
	CString
	CBytes
	CTime
	CDuration
)

type Leaf struct {
	GoType  string // Go type of the value (without pointer)
	Ptr     bool   // pointer-backed (*time.Time, *time.Duration)
	Class   Class
	TFVal   string // Go type of the attr.Value
	TFType  string // Go expression of the attr.Type
	ValGo   string // Go type of .Value
	HasZero bool   // zero-is-null claim applies
	Bits    int    // integer width of the Go type
	Signed  bool
	Qual    bool // GoType lives in the struct package (enum / cast type)
}

type SlotKind int

const (
	SScalar SlotKind = iota
	SMsg
	SList    // list of scalars
	SMap     // map of scalars
	SMsgList // list of messages
	SMsgMap  // map of messages
	SCustom
)

type Slot struct {
	F         *d.FieldDescriptorProto
	GoName    string
	Access    string // ".NP" / ".Emb.EStr"
	EmbedPtr  string // access of the nullable embedded pointer this slot lives under, or ""
	EmbedType string // Go type name of that embedded struct
	Attr      string
	Path      string
	TypeKey   string
	Kind      SlotKind
	Leaf      *Leaf
	Sub       *Occ
	SubPtr    bool
	Oneof     *OneofGroup
	Wrapper   string // oneof wrapper type name
	Comment   string
	Custom    string
	Suffix    string
	GoType    string // full Go type of the struct field (for custom / havoc)

	Required, Computed, Sensitive bool
	Validators, PlanModifiers     []string
}

type OneofGroup struct {
	GoName string
	Iface  string
	Slots  []*Slot
}

type Occ struct {
	ID       string
	MsgName  string
	Path     string
	Msg      *d.DescriptorProto
	Slots    []*Slot // non-excluded, embedded flattened
	Own      []*Slot // slots and excluded fields declared directly in this struct (not via embed); embed fields appear as SMsg with Embed=true
	Excluded []*Slot
	Embeds   []*Embed
	Injected []Injected
	Empty    bool
	Oneofs   []*OneofGroup
	Comment  string
}

type Embed struct {
	GoName   string
	Nullable bool
	Sub      *Occ
}

type Model struct {
	File  *d.FileDescriptorProto
	Cfg   *Config
	Msgs  map[string]*d.DescriptorProto
	MsgIx map[string]int
	Enums map[string]bool
	Roots []*Occ
	Errs  []string
}

func goCamel(s string) string {
	if s == "" {
		return ""
	}
	lower := func(c byte) bool { return 'a' <= c && c <= 'z' }
	digit := func(c byte) bool { return '0' <= c && c <= '9' }
	t := make([]byte, 0, 32)
	i := 0
	if s[0] == '_' {
		t = append(t, 'X')
		i++
	}
	for ; i < len(s); i++ {
		c := s[i]
		if c == '_' && i+1 < len(s) && lower(s[i+1]) {
			continue
		}
		if digit(c) {
			t = append(t, c)
			continue
		}
		if lower(c) {
			c ^= ' '
		}
		t = append(t, c)
		for i+1 < len(s) && lower(s[i+1]) {
			i++
			t = append(t, s[i])
		}
	}
	return string(t)
}

// snake is the documented snake_case: a delimiter before an upper-case letter
// that follows a lower-case one or that starts a new word after an acronym.
func snake(s string) string {
	up := func(c byte) bool { return 'A' <= c && c <= 'Z' }
	lo := func(c byte) bool { return 'a' <= c && c <= 'z' }
	var out []byte
	for i := 0; i < len(s); i++ {
		c := s[i]
		switch {
		case c == '_' || c == '-' || c == ' ':
			if len(out) > 0 && out[len(out)-1] != '_' {
				out = append(out, '_')
			}
		case up(c):
			if i > 0 && (lo(s[i-1]) || (up(s[i-1]) && i+1 < len(s) && lo(s[i+1]))) {
				if len(out) > 0 && out[len(out)-1] != '_' {
					out = append(out, '_')
				}
			}
			out = append(out, c+32)
		default:
			out = append(out, c)
		}
	}
	return string(out)
}

func boolExt(f *d.FieldDescriptorProto, get func(*d.FieldDescriptorProto) bool) bool { return get(f) }

func NewModel(file *d.FileDescriptorProto, cfg *Config) *Model { return NewModelP(file, cfg, "") }

// NewModelP: occurrence ids carry a prefix so that two models can be emitted into one file.
func NewModelP(file *d.FileDescriptorProto, cfg *Config, idPrefix string) *Model {
	m := &Model{File: file, Cfg: cfg, Msgs: map[string]*d.DescriptorProto{}, MsgIx: map[string]int{}, Enums: map[string]bool{}}
	for i, mt := range file.MessageType {
		m.Msgs[mt.GetName()] = mt
		m.MsgIx[mt.GetName()] = i
	}
	for _, e := range file.EnumType {
		m.Enums[e.GetName()] = true
	}
	for _, mt := range file.MessageType {
		if inList(cfg.Types, mt.GetName()) {
			m.Roots = append(m.Roots, m.occ(mt, mt.GetName(), idPrefix+mt.GetName()))
		}
	}
	return m
}

func (m *Model) comment(path ...int32) string {
	for _, l := range m.File.GetSourceCodeInfo().GetLocation() {
		if len(l.Path) == len(path) {
			same := true
			for i := range path {
				if l.Path[i] != path[i] {
					same = false
				}
			}
			if same {
				return flatten(l.GetLeadingComments())
			}
		}
	}
	return ""
}

// flatten: the leading comment as one trimmed line (documented description format).
func flatten(c string) string {
	c = strings.ReplaceAll(c, "\r\n", "\n")
	var parts []string
	for _, l := range strings.Split(c, "\n") {
		l = strings.TrimSpace(l)
		parts = append(parts, l)
	}
	return strings.TrimSpace(strings.Join(parts, " "))
}

func localName(tn string) string {
	if i := strings.LastIndex(tn, "."); i >= 0 {
		return tn[i+1:]
	}
	return tn
}

func (m *Model) flag(list []string, path, key string) bool { return inList(list, path, key) }

func lookup2(mp map[string][]string, path, key string) ([]string, bool) {
	if v, ok := mp[path]; ok {
		return v, true
	}
	v, ok := mp[key]
	return v, ok
}

func (m *Model) leafOf(f *d.FieldDescriptorProto, forMapValue bool) (*Leaf, error) {
	cfg := m.Cfg
	cast := gogoproto.GetCastType(f)
	isTime := gogoproto.IsStdTime(f) || strings.HasSuffix(f.GetTypeName(), "google.protobuf.Timestamp") || cast == "time.Time"
	isDur := gogoproto.IsStdDuration(f) || strings.HasSuffix(f.GetTypeName(), "google.protobuf.Duration") || cast == "time.Duration" ||
		(cfg.DurationCustomType != "" && cast == cfg.DurationCustomType)
	nullable := gogoproto.IsNullable(f)
	switch {
	case isTime:
		if cfg.TimeType == nil {
			return nil, fmt.Errorf("time field without time_type")
		}
		return &Leaf{GoType: "time.Time", Ptr: nullable && f.GetType() == TMessage, Class: CTime, TFVal: cfg.TimeType.ValueType, TFType: typeExpr(cfg.TimeType), ValGo: "time.Time"}, nil
	case isDur:
		if cfg.DurationType == nil {
			return nil, fmt.Errorf("duration field without duration_type")
		}
		gt := "time.Duration"
		q := false
		if cast != "" && cast != "time.Duration" {
			gt, q = cast, true
		}
		return &Leaf{GoType: gt, Qual: q, Ptr: nullable && f.GetType() == TMessage, Class: CDuration, TFVal: cfg.DurationType.ValueType, TFType: typeExpr(cfg.DurationType), ValGo: "time.Duration", Bits: 64, Signed: true}, nil
	}
	var l *Leaf
	i64 := func(gt string, bits int, signed bool) *Leaf {
		return &Leaf{GoType: gt, Class: CInt, TFVal: "types.Int64", TFType: "types.Int64Type", ValGo: "int64", HasZero: true, Bits: bits, Signed: signed}
	}
	switch f.GetType() {
	case TDouble:
		l = &Leaf{GoType: "float64", Class: CFloat64, TFVal: "types.Float64", TFType: "types.Float64Type", ValGo: "float64", HasZero: true}
	case TFloat:
		l = &Leaf{GoType: "float32", Class: CFloat32, TFVal: "types.Float64", TFType: "types.Float64Type", ValGo: "float64", HasZero: true}
	case TInt32, TSint32, TSfixed32:
		l = i64("int32", 32, true)
	case TInt64, TSint64, TSfixed64:
		l = i64("int64", 64, true)
	case TUint32, TFixed32:
		l = i64("uint32", 32, false)
	case TUint64, TFixed64:
		l = i64("uint64", 64, false)
	case TEnum:
		l = i64(localName(f.GetTypeName()), 32, true)
		l.Qual = true
	case TBool:
		l = &Leaf{GoType: "bool", Class: CBool, TFVal: "types.Bool", TFType: "types.BoolType", ValGo: "bool", HasZero: true}
	case TString:
		l = &Leaf{GoType: "string", Class: CString, TFVal: "types.String", TFType: "types.StringType", ValGo: "string", HasZero: true}
	case TBytes:
		l = &Leaf{GoType: "[]byte", Class: CBytes, TFVal: "types.String", TFType: "types.StringType", ValGo: "string", HasZero: true}
	default:
		return nil, fmt.Errorf("unmappable field type %v", f.GetType())
	}
	if cast != "" {
		l.GoType, l.Qual = cast, true
	}
	return l, nil
}

func typeExpr(t *SchemaType) string {
	if t.TypeConstructor != "" {
		return t.TypeConstructor
	}
	return t.Type + "{}"
}

func (m *Model) mapEntry(parent *d.DescriptorProto, f *d.FieldDescriptorProto) *d.DescriptorProto {
	if f.GetType() != TMessage || f.GetLabel() != d.FieldDescriptorProto_LABEL_REPEATED {
		return nil
	}
	ln := localName(f.GetTypeName())
	for _, nt := range parent.NestedType {
		if nt.GetName() == ln && nt.GetOptions().GetMapEntry() {
			return nt
		}
	}
	return nil
}

// attrName implements the documented naming rule.
func (m *Model) attrName(f *d.FieldDescriptorProto, path, key string) string {
	if v, ok := m.Cfg.NameOverrides[path]; ok {
		return v
	}
	if v, ok := m.Cfg.NameOverrides[key]; ok {
		return v
	}
	if t := gogoproto.GetJsonTag(f); t != nil {
		first := strings.Split(*t, ",")[0]
		if first != "" && first != "-" {
			return first
		}
	}
	return snake(f.GetName())
}

// occ resolves one occurrence of message mt at option path `path`.
func (m *Model) occ(mt *d.DescriptorProto, path, id string) *Occ {
	o := &Occ{ID: id, MsgName: mt.GetName(), Path: path, Msg: mt, Empty: len(mt.Field) == 0}
	o.Injected = m.Cfg.InjectedFields[path]
	o.Comment = m.comment(4, int32(m.MsgIx[mt.GetName()]))
	for _, od := range mt.OneofDecl {
		g := &OneofGroup{GoName: goCamel(od.GetName()), Iface: "is" + mt.GetName() + "_" + goCamel(od.GetName())}
		o.Oneofs = append(o.Oneofs, g)
	}
	m.fill(o, mt, path, "", "", "", id)
	return o
}

// fill appends the slots of message mt (flattening embedded messages) to o.
func (m *Model) fill(o *Occ, mt *d.DescriptorProto, path, accessPrefix, embedPtr, embedType, id string) {
	top := accessPrefix == ""
	for fi, f := range mt.Field {
		goName := goCamel(f.GetName())
		fpath := path + "." + f.GetName()
		key := mt.GetName() + "." + f.GetName()
		s := &Slot{F: f, GoName: goName, Access: accessPrefix + "." + goName, EmbedPtr: embedPtr, EmbedType: embedType, Path: fpath, TypeKey: key}
		s.Comment = m.comment(4, int32(m.MsgIx[mt.GetName()]), 2, int32(fi))
		excluded := m.flag(m.Cfg.ExcludeFields, fpath, key)
		if gogoproto.IsEmbed(f) && f.GetType() == TMessage && !excluded {
			sub := m.Msgs[localName(f.GetTypeName())]
			en := localName(f.GetTypeName())
			nullable := gogoproto.IsNullable(f)
			if top {
				so := &Occ{ID: id + "_" + en, MsgName: en, Path: path, Msg: sub}
				o.Embeds = append(o.Embeds, &Embed{GoName: en, Nullable: nullable, Sub: so})
			}
			ep, et := embedPtr, embedType
			if nullable {
				if embedPtr != "" {
					m.Errs = append(m.Errs, "nested nullable embeds are outside D: "+fpath)
				}
				ep, et = accessPrefix+"."+en, en
			}
			// children are flattened into the embedding message: their path continues the parent's
			m.fill(o, sub, path, accessPrefix+"."+en, ep, et, id)
			continue
		}
		s.Attr = m.attrName(f, fpath, key)
		if excluded {
			if top {
				o.Excluded = append(o.Excluded, s)
				s.GoType = m.goFieldType(mt, f)
			}
			continue
		}
		s.Required = m.flag(m.Cfg.RequiredFields, fpath, key)
		s.Computed = m.flag(m.Cfg.ComputedFields, fpath, key)
		s.Sensitive = m.flag(m.Cfg.SensitiveFields, fpath, key)
		s.Validators, _ = lookup2(m.Cfg.Validators, fpath, key)
		if pm, ok := lookup2(m.Cfg.PlanModifiers, fpath, key); ok {
			s.PlanModifiers = pm
		} else if m.Cfg.UseStateForUnknownByDefault && s.Computed {
			s.PlanModifiers = []string{"github.com/hashicorp/terraform-plugin-framework/tfsdk.UseStateForUnknown()"}
		}
		if f.OneofIndex != nil {
			g := o.Oneofs[f.GetOneofIndex()]
			if !top {
				m.Errs = append(m.Errs, "oneof inside an embedded message is outside D: "+fpath)
			}
			s.Oneof = g
			s.Wrapper = mt.GetName() + "_" + goName
			g.Slots = append(g.Slots, s)
		}
		s.GoType = m.goFieldType(mt, f)
		ct, isCfgCustom := m.Cfg.CustomTypes[fpath]
		if gogoproto.IsCustomType(f) && !isCfgCustom {
			ct = gogoproto.GetCustomType(f)
		}
		if gogoproto.IsCustomType(f) || isCfgCustom {
			s.Kind, s.Custom = SCustom, ct
			if v, ok := m.Cfg.Suffixes[ct]; ok {
				s.Suffix = v
			} else {
				s.Suffix = strings.ReplaceAll(strings.ReplaceAll(ct, "/", ""), ".", "")
			}
			o.Slots = append(o.Slots, s)
			continue
		}
		subID := id + strings.ReplaceAll(accessPrefix, ".", "_") + "_" + goName
		if me := m.mapEntry(mt, f); me != nil {
			vf := me.Field[1]
			if me.Field[0].GetType() != TString {
				m.Errs = append(m.Errs, "non-string map key: "+fpath)
				continue
			}
			// options live on the map field; the value type on the entry's value field
			eff := *vf
			eff.Options = f.Options
			if vf.GetType() == TMessage && !isStd(&eff) {
				s.Kind = SMsgMap
				s.SubPtr = gogoproto.IsNullable(f)
				s.Sub = m.occ(m.Msgs[localName(vf.GetTypeName())], fpath, subID)
			} else {
				l, err := m.leafOf(&eff, true)
				if err != nil {
					m.Errs = append(m.Errs, fpath+": "+err.Error())
					continue
				}
				s.Kind, s.Leaf = SMap, l
			}
			o.Slots = append(o.Slots, s)
			continue
		}
		rep := f.GetLabel() == d.FieldDescriptorProto_LABEL_REPEATED
		if f.GetType() == TMessage && !isStd(f) {
			sub := m.Msgs[localName(f.GetTypeName())]
			s.Sub = m.occ(sub, fpath, subID)
			s.SubPtr = gogoproto.IsNullable(f) || f.OneofIndex != nil
			if rep {
				s.Kind = SMsgList
			} else {
				s.Kind = SMsg
			}
			o.Slots = append(o.Slots, s)
			continue
		}
		l, err := m.leafOf(f, false)
		if err != nil {
			m.Errs = append(m.Errs, fpath+": "+err.Error())
			continue
		}
		if f.OneofIndex != nil && l.Ptr {
			// std time/duration inside a oneof wrapper are pointers
		}
		// schema_types: the Terraform type of this occurrence (path first, then Message.Field) replaces the
		// default one, type constructor included (modelled for singular time fields)
		if ov, ok := m.Cfg.SchemaTypes[fpath]; ok && l.Class == CTime && !rep {
			ll := *l
			o2 := ov
			ll.TFVal, ll.TFType = ov.ValueType, typeExpr(&o2)
			l = &ll
		} else if ov, ok := m.Cfg.SchemaTypes[key]; ok && l.Class == CTime && !rep {
			ll := *l
			o2 := ov
			ll.TFVal, ll.TFType = ov.ValueType, typeExpr(&o2)
			l = &ll
		}
		s.Leaf = l
		if rep {
			s.Kind = SList
		} else {
			s.Kind = SScalar
		}
		o.Slots = append(o.Slots, s)
	}
}

func isStd(f *d.FieldDescriptorProto) bool {
	return gogoproto.IsStdTime(f) || gogoproto.IsStdDuration(f) ||
		strings.HasSuffix(f.GetTypeName(), "google.protobuf.Timestamp") || strings.HasSuffix(f.GetTypeName(), "google.protobuf.Duration")
}

// goFieldType: the Go type gogo gives the struct field (struct package unqualified; TQ is added by the emitter).
func (m *Model) goFieldType(mt *d.DescriptorProto, f *d.FieldDescriptorProto) string {
	if me := m.mapEntry(mt, f); me != nil {
		vf := *me.Field[1]
		vf.Options = f.Options
		return "map[string]" + m.goElemType(&vf)
	}
	t := m.goElemType(f)
	if f.GetLabel() == d.FieldDescriptorProto_LABEL_REPEATED {
		return "[]" + t
	}
	return t
}

const tqMark = "§" // placeholder replaced by the struct-package qualifier

func (m *Model) goElemType(f *d.FieldDescriptorProto) string {
	if gogoproto.IsCustomType(f) {
		t := tqMark + gogoproto.GetCustomType(f)
		if gogoproto.IsNullable(f) && f.GetLabel() != d.FieldDescriptorProto_LABEL_REPEATED {
			return "*" + t
		}
		return t
	}
	if f.GetType() == TMessage && !isStd(f) {
		t := tqMark + localName(f.GetTypeName())
		if gogoproto.IsNullable(f) {
			return "*" + t
		}
		return t
	}
	l, err := m.leafOf(f, false)
	if err != nil {
		return "interface{}"
	}
	t := l.GoType
	if l.Qual {
		t = tqMark + t
	}
	if l.Ptr {
		return "*" + t
	}
	return t
}
