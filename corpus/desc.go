package main

// Descriptor DSL: CodeGeneratorRequests are built directly (there is no protoc
// in the sandbox), with gogoproto extensions and SourceCodeInfo comments.

import (
	"bytes"
	"compress/gzip"
	"io/ioutil"
	"strings"

	"github.com/gogo/protobuf/gogoproto"
	"github.com/gogo/protobuf/proto"
	d "github.com/gogo/protobuf/protoc-gen-gogo/descriptor"
	plugin "github.com/gogo/protobuf/protoc-gen-gogo/plugin"
	gproto "google.golang.org/protobuf/proto"
	"google.golang.org/protobuf/reflect/protodesc"
	"google.golang.org/protobuf/types/known/durationpb"
	"google.golang.org/protobuf/types/known/timestamppb"
)

func loadRegistered(name string) *d.FileDescriptorProto {
	gz := proto.FileDescriptor(name)
	return gunzipFD(gz)
}

func gunzipFD(gz []byte) *d.FileDescriptorProto {
	r, err := gzip.NewReader(bytes.NewReader(gz))
	if err != nil {
		panic(err)
	}
	b, _ := ioutil.ReadAll(r)
	fd := &d.FileDescriptorProto{}
	if err := proto.Unmarshal(b, fd); err != nil {
		panic(err)
	}
	return fd
}

func S(s string) *string { return &s }
func I(i int32) *int32   { return &i }
func B(b bool) *bool     { return &b }

type F struct {
	*d.FieldDescriptorProto
	comment string
	mapVal  *F // non-nil: this is map<string, mapVal> (or map<keyT, mapVal>)
	mapKey  d.FieldDescriptorProto_Type
}

const (
	TDouble   = d.FieldDescriptorProto_TYPE_DOUBLE
	TFloat    = d.FieldDescriptorProto_TYPE_FLOAT
	TInt64    = d.FieldDescriptorProto_TYPE_INT64
	TUint64   = d.FieldDescriptorProto_TYPE_UINT64
	TInt32    = d.FieldDescriptorProto_TYPE_INT32
	TFixed64  = d.FieldDescriptorProto_TYPE_FIXED64
	TFixed32  = d.FieldDescriptorProto_TYPE_FIXED32
	TBool     = d.FieldDescriptorProto_TYPE_BOOL
	TString   = d.FieldDescriptorProto_TYPE_STRING
	TGroup    = d.FieldDescriptorProto_TYPE_GROUP
	TMessage  = d.FieldDescriptorProto_TYPE_MESSAGE
	TBytes    = d.FieldDescriptorProto_TYPE_BYTES
	TUint32   = d.FieldDescriptorProto_TYPE_UINT32
	TEnum     = d.FieldDescriptorProto_TYPE_ENUM
	TSfixed32 = d.FieldDescriptorProto_TYPE_SFIXED32
	TSfixed64 = d.FieldDescriptorProto_TYPE_SFIXED64
	TSint32   = d.FieldDescriptorProto_TYPE_SINT32
	TSint64   = d.FieldDescriptorProto_TYPE_SINT64
)

var scalarTypes = []d.FieldDescriptorProto_Type{TDouble, TFloat, TInt64, TUint64, TInt32, TFixed64, TFixed32, TBool, TString, TBytes, TUint32, TSfixed32, TSfixed64, TSint32, TSint64}

func fld(name string, t d.FieldDescriptorProto_Type) F {
	l := d.FieldDescriptorProto_LABEL_OPTIONAL
	return F{FieldDescriptorProto: &d.FieldDescriptorProto{Name: S(name), Type: &t, Label: &l, JsonName: S(name)}}
}
func mfld(name, msg string) F  { return fld(name, TMessage).tn("." + pkgName + "." + msg) }
func efld(name, enum string) F { return fld(name, TEnum).tn("." + pkgName + "." + enum) }
func tsfld(name string) F      { return fld(name, TMessage).tn(".google.protobuf.Timestamp").stdtime() }
func dufld(name string) F      { return fld(name, TMessage).tn(".google.protobuf.Duration").stddur() }
func mapfld(name string, val F) F {
	f := fld(name, TMessage).rep()
	f.mapVal = &val
	f.mapKey = TString
	return f
}

func (f F) rep() F          { l := d.FieldDescriptorProto_LABEL_REPEATED; f.Label = &l; return f }
func (f F) tn(n string) F   { f.TypeName = S(n); return f }
func (f F) oneof(i int) F   { f.OneofIndex = I(int32(i)); return f }
func (f F) doc(c string) F  { f.comment = c; return f }
func (f F) key(t d.FieldDescriptorProto_Type) F { f.mapKey = t; return f }
func (f F) opt(e *proto.ExtensionDesc, v interface{}) F {
	if f.Options == nil {
		f.Options = &d.FieldOptions{}
	} else {
		f.Options = proto.Clone(f.Options).(*d.FieldOptions)
	}
	if err := proto.SetExtension(f.Options, e, v); err != nil {
		panic(err)
	}
	return f
}
func (f F) nonnull() F        { return f.opt(gogoproto.E_Nullable, B(false)) }
func (f F) stdtime() F        { return f.opt(gogoproto.E_Stdtime, B(true)) }
func (f F) stddur() F         { return f.opt(gogoproto.E_Stdduration, B(true)) }
func (f F) embed() F          { return f.opt(gogoproto.E_Embed, B(true)).opt(gogoproto.E_Jsontag, S("")) }
func (f F) cast(t string) F   { return f.opt(gogoproto.E_Casttype, S(t)) }
func (f F) castkey(t string) F { return f.opt(gogoproto.E_Castkey, S(t)) }
func (f F) castvalue(t string) F { return f.opt(gogoproto.E_Castvalue, S(t)) }
func (f F) custom(t string) F { return f.opt(gogoproto.E_Customtype, S(t)) }
func (f F) json(t string) F   { return f.opt(gogoproto.E_Jsontag, S(t)) }

type M struct {
	*d.DescriptorProto
	comment   string
	fcomments map[int]string
}

const pkgName = "p"

// msg builds a message; field numbers are assigned in declaration order.
func msg(name string, oneofs []string, fs ...F) *M {
	m := &M{DescriptorProto: &d.DescriptorProto{Name: S(name)}, fcomments: map[int]string{}}
	for _, o := range oneofs {
		m.OneofDecl = append(m.OneofDecl, &d.OneofDescriptorProto{Name: S(o)})
	}
	for i, f := range fs {
		fd := proto.Clone(f.FieldDescriptorProto).(*d.FieldDescriptorProto)
		if fd.Number == nil {
			fd.Number = I(int32(i + 1))
		}
		if f.mapVal != nil {
			ename := camel(fd.GetName()) + "Entry"
			k := fld("key", f.mapKey)
			k.Number = I(1)
			v := proto.Clone(f.mapVal.FieldDescriptorProto).(*d.FieldDescriptorProto)
			v.Name, v.JsonName, v.Number = S("value"), S("value"), I(2)
			v.Options = nil // protoc puts the options on the map field only
			e := &d.DescriptorProto{Name: S(ename), Field: []*d.FieldDescriptorProto{k.FieldDescriptorProto, v},
				Options: &d.MessageOptions{MapEntry: B(true)}}
			m.NestedType = append(m.NestedType, e)
			fd.TypeName = S("." + pkgName + "." + name + "." + ename)
			// gogoproto options that gogo reads from the map field itself
			if f.mapVal.Options != nil {
				if fd.Options == nil {
					fd.Options = &d.FieldOptions{}
				}
				proto.Merge(fd.Options, f.mapVal.Options)
			}
		}
		if f.comment != "" {
			m.fcomments[i] = f.comment
		}
		m.Field = append(m.Field, fd)
	}
	return m
}
func (m *M) doc(c string) *M { m.comment = c; return m }

func camel(s string) string {
	parts := strings.Split(s, "_")
	for i, p := range parts {
		if p != "" {
			parts[i] = strings.ToUpper(p[:1]) + p[1:]
		}
	}
	return strings.Join(parts, "")
}

type FileSpec struct {
	Name      string
	Enums     []*d.EnumDescriptorProto
	Msgs      []*M
	GoPackage string // go_package option (most corpus files have none: their Go import path is ".")
}

func enum(name string, vals ...string) *d.EnumDescriptorProto {
	e := &d.EnumDescriptorProto{Name: S(name)}
	for i, v := range vals {
		e.Value = append(e.Value, &d.EnumValueDescriptorProto{Name: S(v), Number: I(int32(i))})
	}
	return e
}

func (fs *FileSpec) build() *d.FileDescriptorProto {
	file := &d.FileDescriptorProto{
		Name:       S(fs.Name),
		Package:    S(pkgName),
		Syntax:     S("proto3"),
		Dependency: []string{"gogoproto/gogo.proto", "google/protobuf/timestamp.proto", "google/protobuf/duration.proto"},
		Options:    &d.FileOptions{},
	}
	proto.SetExtension(file.Options, gogoproto.E_GoprotoGettersAll, B(false))
	if fs.GoPackage != "" {
		file.Options.GoPackage = S(fs.GoPackage)
	}
	file.EnumType = fs.Enums
	sci := &d.SourceCodeInfo{}
	for mi, m := range fs.Msgs {
		file.MessageType = append(file.MessageType, m.DescriptorProto)
		if m.comment != "" {
			sci.Location = append(sci.Location, &d.SourceCodeInfo_Location{Path: []int32{4, int32(mi)}, LeadingComments: S(m.comment)})
		}
		for fi := range m.Field {
			if c, ok := m.fcomments[fi]; ok {
				sci.Location = append(sci.Location, &d.SourceCodeInfo_Location{Path: []int32{4, int32(mi), 2, int32(fi)}, LeadingComments: S(c)})
			}
		}
	}
	file.SourceCodeInfo = sci
	return file
}

var depFiles []*d.FileDescriptorProto

func deps() []*d.FileDescriptorProto {
	if depFiles != nil {
		return depFiles
	}
	desc := loadRegistered("descriptor.proto")
	desc.Name = S("google/protobuf/descriptor.proto")
	gogo := loadRegistered("gogo.proto")
	gogo.Name = S("gogoproto/gogo.proto")
	conv := func(m gproto.Message) *d.FileDescriptorProto {
		b, _ := gproto.Marshal(m)
		fd := &d.FileDescriptorProto{}
		if err := proto.Unmarshal(b, fd); err != nil {
			panic(err)
		}
		return fd
	}
	ts := conv(protodesc.ToFileDescriptorProto(timestamppb.File_google_protobuf_timestamp_proto))
	du := conv(protodesc.ToFileDescriptorProto(durationpb.File_google_protobuf_duration_proto))
	depFiles = []*d.FileDescriptorProto{desc, gogo, ts, du}
	return depFiles
}

func buildRequest(file *d.FileDescriptorProto, param string, extra ...*d.FileDescriptorProto) []byte {
	files := append([]*d.FileDescriptorProto{}, deps()...)
	files = append(files, extra...)
	files = append(files, file)
	req := &plugin.CodeGeneratorRequest{
		FileToGenerate: []string{file.GetName()},
		Parameter:      &param,
		ProtoFile:      files,
	}
	b, err := proto.Marshal(req)
	if err != nil {
		panic(err)
	}
	return b
}
