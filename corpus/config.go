package main

import (
	"sort"
	"strings"

	"gopkg.in/yaml.v3"
)

// SchemaType mirrors the documented time_type / duration_type / schema_types entries.
type SchemaType struct {
	Type            string `yaml:"type,omitempty"`
	ValueType       string `yaml:"value_type,omitempty"`
	CastToType      string `yaml:"cast_to_type,omitempty"`
	CastFromType    string `yaml:"cast_from_type,omitempty"`
	TypeConstructor string `yaml:"type_constructor,omitempty"`
}

type Injected struct {
	Name          string   `yaml:"name,omitempty"`
	Type          string   `yaml:"type,omitempty"`
	Required      bool     `yaml:"required,omitempty"`
	Computed      bool     `yaml:"computed,omitempty"`
	Optional      bool     `yaml:"optional,omitempty"`
	PlanModifiers []string `yaml:"plan_modifiers,omitempty"`
	Validators    []string `yaml:"validators,omitempty"`
}

// Config is the documented configuration surface (README), as the oracle reads it.
type Config struct {
	Types                       []string              `yaml:"types,omitempty"`
	DurationCustomType          string                `yaml:"duration_custom_type,omitempty"`
	ExcludeFields               []string              `yaml:"exclude_fields,omitempty"`
	TargetPackageName           string                `yaml:"target_package_name,omitempty"`
	DefaultPackageName          string                `yaml:"default_package_name,omitempty"`
	Sort                        bool                  `yaml:"sort,omitempty"`
	UseStateForUnknownByDefault bool                  `yaml:"use_state_for_unknown_by_default,omitempty"`
	ComputedFields              []string              `yaml:"computed_fields,omitempty"`
	RequiredFields              []string              `yaml:"required_fields,omitempty"`
	SensitiveFields             []string              `yaml:"sensitive_fields,omitempty"`
	Suffixes                    map[string]string     `yaml:"suffixes,omitempty"`
	NameOverrides               map[string]string     `yaml:"name_overrides,omitempty"`
	Validators                  map[string][]string   `yaml:"validators,omitempty"`
	PlanModifiers               map[string][]string   `yaml:"plan_modifiers,omitempty"`
	SchemaTypes                 map[string]SchemaType `yaml:"schema_types,omitempty"`
	TimeType                    *SchemaType           `yaml:"time_type,omitempty"`
	DurationType                *SchemaType           `yaml:"duration_type,omitempty"`
	InjectedFields              map[string][]Injected `yaml:"injected_fields,omitempty"`
	ImportPathOverrides         map[string]string     `yaml:"import_path_overrides,omitempty"`
	CustomTypes                 map[string]string     `yaml:"custom_types,omitempty"`
}

func (c *Config) yaml() []byte {
	b, err := yaml.Marshal(c)
	if err != nil {
		panic(err)
	}
	return b
}

func (c *Config) clone() *Config {
	var n Config
	if err := yaml.Unmarshal(c.yaml(), &n); err != nil {
		panic(err)
	}
	return &n
}

func parseConfig(b []byte) *Config {
	var n Config
	if err := yaml.Unmarshal(b, &n); err != nil {
		panic(err)
	}
	return &n
}

func inList(l []string, keys ...string) bool {
	for _, x := range l {
		for _, k := range keys {
			if x == k {
				return true
			}
		}
	}
	return false
}

var stdTime = &SchemaType{Type: "TimeType", ValueType: "TimeValue", CastToType: "time.Time", CastFromType: "time.Time"}
var stdDur = &SchemaType{Type: "DurationType", ValueType: "DurationValue", CastToType: "time.Duration", CastFromType: "time.Duration"}

func baseConfig(types ...string) *Config {
	t1, t2 := *stdTime, *stdDur
	return &Config{Types: types, DurationCustomType: "Duration", TimeType: &t1, DurationType: &t2}
}

func sortedKeys(m map[string]string) []string {
	var ks []string
	for k := range m {
		ks = append(ks, k)
	}
	sort.Strings(ks)
	return ks
}

var _ = strings.Join
