package main

// P00: the repository's own fixture, regenerated from /repo/test on every run:
// descriptor from the gzipped bytes embedded in test/test.pb.go, leading comments
// re-attached from test/test.proto, configuration from test/config.yaml.

import (
	"io/ioutil"
	"regexp"
	"strconv"
	"strings"

	d "github.com/gogo/protobuf/protoc-gen-gogo/descriptor"
)

func p00Descriptor() *d.FileDescriptorProto {
	src, err := ioutil.ReadFile("/repo/test/test.pb.go")
	must(err)
	re := regexp.MustCompile(`(?s)var fileDescriptor_\w+ = \[\]byte\{(.*?)\n\}`)
	m := re.FindSubmatch(src)
	if m == nil {
		panic("P00: embedded descriptor not found in test/test.pb.go")
	}
	var gz []byte
	for _, tok := range regexp.MustCompile(`0x[0-9a-fA-F]{2}`).FindAll(m[1], -1) {
		b, _ := strconv.ParseUint(string(tok[2:]), 16, 8)
		gz = append(gz, byte(b))
	}
	fd := gunzipFD(gz)
	attachComments(fd)
	return fd
}

// attachComments rebuilds SourceCodeInfo leading comments from test.proto (protoc's format:
// comment text without the slashes, lines joined by \n, trailing \n).
func attachComments(fd *d.FileDescriptorProto) {
	src, err := ioutil.ReadFile("/repo/test/test.proto")
	must(err)
	msgRe := regexp.MustCompile(`^\s*message\s+(\w+)\s*\{`)
	fieldRe := regexp.MustCompile(`^\s*(?:repeated\s+)?(?:map\s*<[^>]*>|[\w.]+)\s+(\w+)\s*=\s*\d+`)
	comments := map[string]string{} // "Msg" or "Msg.field" -> comment
	var pending []string
	cur := ""
	for _, line := range strings.Split(string(src), "\n") {
		t := strings.TrimSpace(line)
		switch {
		case strings.HasPrefix(t, "//"):
			pending = append(pending, strings.TrimPrefix(t, "//"))
			continue
		case t == "":
			pending = nil
			continue
		}
		if m := msgRe.FindStringSubmatch(line); m != nil {
			cur = m[1]
			if len(pending) > 0 {
				comments[cur] = strings.Join(pending, "\n") + "\n"
			}
		} else if m := fieldRe.FindStringSubmatch(line); m != nil && cur != "" {
			if len(pending) > 0 {
				comments[cur+"."+m[1]] = strings.Join(pending, "\n") + "\n"
			}
		}
		pending = nil
	}
	sci := &d.SourceCodeInfo{}
	for mi, mt := range fd.MessageType {
		if c, ok := comments[mt.GetName()]; ok {
			sci.Location = append(sci.Location, &d.SourceCodeInfo_Location{Path: []int32{4, int32(mi)}, LeadingComments: S(c)})
		}
		for fi, f := range mt.Field {
			if c, ok := comments[mt.GetName()+"."+f.GetName()]; ok {
				sci.Location = append(sci.Location, &d.SourceCodeInfo_Location{Path: []int32{4, int32(mi), 2, int32(fi)}, LeadingComments: S(c)})
			}
		}
	}
	fd.SourceCodeInfo = sci
}

func p00Config() *Config {
	b, err := ioutil.ReadFile("/repo/test/config.yaml")
	must(err)
	return parseConfig(b)
}

// p00Support copies the repository's own support code (time/duration types, custom hooks, validators).
func p00Support(pkgDir string) {
	for _, f := range []string{"custom_types.go", "time_duration.go", "validators.go"} {
		b, err := ioutil.ReadFile("/repo/test/" + f)
		must(err)
		writeFile(pkgDir+"/"+f, b)
	}
	// the oracle's view of the custom attribute types (what the repository's GenSchema hooks return)
	writeFile(pkgDir+"/zz_custom_types.go", []byte(`package test

import (
	"github.com/hashicorp/terraform-plugin-framework/attr"
	"github.com/hashicorp/terraform-plugin-framework/types"
)

func customAttrType_BoolSpecial() attr.Type  { return types.ListType{ElemType: types.BoolType} }
func customAttrType_StringCustom() attr.Type { return types.ListType{ElemType: types.StringType} }
func customValue_BoolSpecial() attr.Value    { return types.List{ElemType: types.BoolType, Null: true} }
func customValue_StringCustom() attr.Value   { return types.List{ElemType: types.StringType, Null: true} }
`))
}
