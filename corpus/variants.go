package main

// Variants for the differential checks (DESIGN §3.3, §5.3).

import (
	"encoding/json"
	"fmt"
	"io/ioutil"
	"path/filepath"
	"strings"

	"github.com/gogo/protobuf/proto"
	d "github.com/gogo/protobuf/protoc-gen-gogo/descriptor"
)

type Variant struct {
	Name    string
	Prop    string
	Base    string
	Quick   bool
	CfgA    func(c *Config)                                                        // adjusts the base configuration of A (optional)
	Mut     func(f *d.FileDescriptorProto, c *Config) (*d.FileDescriptorProto, *Config) // B's request
	Extra   []*d.FileDescriptorProto                                               // extra dependency files of B's request
	Structs string                                                                 // "A" | "B": which file gives package p
	Roots   []string                                                               // roots compared (default: A's types)
	Alias   bool                                                                   // B names the struct package by a bare alias + import_path_overrides (README form)
}

func cloneFile(f *d.FileDescriptorProto) *d.FileDescriptorProto {
	return proto.Clone(f).(*d.FileDescriptorProto)
}

func ident(f *d.FileDescriptorProto, c *Config) (*d.FileDescriptorProto, *Config) { return f, c }

func withCfg(fn func(c *Config)) func(f *d.FileDescriptorProto, c *Config) (*d.FileDescriptorProto, *Config) {
	return func(f *d.FileDescriptorProto, c *Config) (*d.FileDescriptorProto, *Config) {
		n := c.clone()
		fn(n)
		return f, n
	}
}

// remapComments rebuilds the SourceCodeInfo of a re-ordered file: the leading comments of top-level
// messages and of their fields follow their message / field to its new index (what protoc would emit
// for the re-ordered .proto file).
func remapComments(orig, n *d.FileDescriptorProto) {
	if orig.SourceCodeInfo == nil {
		n.SourceCodeInfo = nil
		return
	}
	msgC, fldC := map[string]string{}, map[string]string{}
	for _, l := range orig.SourceCodeInfo.Location {
		p := l.Path
		if l.LeadingComments == nil || len(p) < 2 || p[0] != 4 || int(p[1]) >= len(orig.MessageType) {
			continue
		}
		m := orig.MessageType[p[1]]
		switch {
		case len(p) == 2:
			msgC[m.GetName()] = l.GetLeadingComments()
		case len(p) == 4 && p[2] == 2 && int(p[3]) < len(m.Field):
			fldC[m.GetName()+"."+m.Field[p[3]].GetName()] = l.GetLeadingComments()
		}
	}
	sci := &d.SourceCodeInfo{}
	for mi, m := range n.MessageType {
		if c, ok := msgC[m.GetName()]; ok {
			sci.Location = append(sci.Location, &d.SourceCodeInfo_Location{Path: []int32{4, int32(mi)}, LeadingComments: S(c)})
		}
		for fi, f := range m.Field {
			if c, ok := fldC[m.GetName()+"."+f.GetName()]; ok {
				sci.Location = append(sci.Location, &d.SourceCodeInfo_Location{Path: []int32{4, int32(mi), 2, int32(fi)}, LeadingComments: S(c)})
			}
		}
	}
	n.SourceCodeInfo = sci
}

// permute reverses the declaration order of fields in every message and of the messages in the file
// (numbers, names and oneof membership kept).
func permute(f *d.FileDescriptorProto, c *Config) (*d.FileDescriptorProto, *Config) {
	n := cloneFile(f)
	for _, m := range n.MessageType {
		for i, j := 0, len(m.Field)-1; i < j; i, j = i+1, j-1 {
			m.Field[i], m.Field[j] = m.Field[j], m.Field[i]
		}
	}
	for i, j := 0, len(n.MessageType)-1; i < j; i, j = i+1, j-1 {
		n.MessageType[i], n.MessageType[j] = n.MessageType[j], n.MessageType[i]
	}
	remapComments(f, n)
	return n, c
}

// rotate moves the first field of every message to the end.
func rotate(f *d.FileDescriptorProto, c *Config) (*d.FileDescriptorProto, *Config) {
	n := cloneFile(f)
	for _, m := range n.MessageType {
		if len(m.Field) > 1 {
			m.Field = append(m.Field[1:], m.Field[0])
		}
	}
	remapComments(f, n)
	return n, c
}

func extraMessage(f *d.FileDescriptorProto, c *Config) (*d.FileDescriptorProto, *Config) {
	n := cloneFile(f)
	z := msg("Zed", nil, fld("Unrelated", TString), fld("Other", TInt64).rep())
	n.MessageType = append([]*d.DescriptorProto{z.DescriptorProto}, n.MessageType...)
	remapComments(f, n)
	return n, c
}

func extraDepFile() *d.FileDescriptorProto {
	return &d.FileDescriptorProto{Name: S("unrelated/dep.proto"), Package: S("unrelated"), Syntax: S("proto3"),
		MessageType: []*d.DescriptorProto{msg("DepMsg", nil, fld("X", TString)).DescriptorProto}}
}

func noExcl(c *Config) { c.ExcludeFields = nil }

func variants() []*Variant {
	var vs []*Variant
	add := func(v *Variant) {
		if v.Structs == "" {
			v.Structs = "A"
		}
		vs = append(vs, v)
	}
	// C13: separate-package generation
	// (P-multi, P-names, P-flags, P-mapopt carry field-addressed options in both key forms)
	for _, b := range []string{"P-time", "P-cast", "P-nest", "P-oneof", "P-embed", "P-scal-S3", "P-empty", "P-nest-map", "P-multi", "P-names", "P-flags", "P-embed-x", "P-gopkg"} {
		add(&Variant{Name: "sep:" + b, Prop: "C13", Base: b, Quick: b != "P-nest-map", Mut: ident})
	}
	for _, b := range []string{"P-time", "P-nest", "P-embed", "P-oneof", "P-flags", "P-gopkg"} {
		add(&Variant{Name: "sep-alias:" + b, Prop: "C13", Base: b, Quick: b != "P-oneof", Mut: ident, Alias: true})
	}
	// C11: field-addressed options on P-multi, both key forms
	excl := func(keys ...string) func(f *d.FileDescriptorProto, c *Config) (*d.FileDescriptorProto, *Config) {
		return withCfg(func(c *Config) { c.ExcludeFields = append(c.ExcludeFields, keys...) })
	}
	for i, keys := range [][]string{{"A.Own"}, {"A.X.Num"}, {"Shared.Flag"}, {"A.Y.Z.Str"}, {"A.Y.Tag"}, {"Mid.Tag"}, {"A.X"}, {"Shared.Str", "A.Own"}} {
		add(&Variant{Name: fmt.Sprintf("excl%d:%s", i, strings.Join(keys, "+")), Prop: "C11", Base: "P-multi", Quick: i < 5, CfgA: noExcl, Mut: excl(keys...)})
	}
	for i, keys := range [][]string{{"R.Labels.Value"}, {"R.Value"}, {"R.Name", "R.List.Weight"}, {"Label.Name"}, {"R.Primary.Value"}} {
		add(&Variant{Name: fmt.Sprintf("mapexcl%d:%s", i, strings.Join(keys, "+")), Prop: "C11", Base: "P-mapopt", Quick: i < 4, Mut: excl(keys...)})
	}
	for i, keys := range [][]string{{"Lf.note"}, {"Lf.hit_count"}, {"Lr.first.note", "Lf.Label"}} {
		add(&Variant{Name: fmt.Sprintf("lowerexcl%d:%s", i, strings.Join(keys, "+")), Prop: "C11", Base: "P-lower", Quick: true, Mut: excl(keys...)})
	}
	add(&Variant{Name: "lowerflags:required+computed+sensitive", Prop: "C11", Base: "P-lower", Quick: true, Mut: withCfg(func(c *Config) {
		c.RequiredFields = []string{"Lf.note"}
		c.ComputedFields = []string{"Lf.hit_count"}
		c.SensitiveFields = []string{"Lf.note", "Lr.items.Label"}
		c.UseStateForUnknownByDefault = true
	})})
	add(&Variant{Name: "custom:validators+plan-modifiers", Prop: "C11", Base: "P-custom", Quick: true, Mut: withCfg(func(c *Config) {
		c.Validators = map[string][]string{"Cu.C": {"UseMockValidator()"}, "Cu.Own": {"UseMockValidator()"}}
		c.PlanModifiers = map[string][]string{"Cu.CfgC": {"github.com/hashicorp/terraform-plugin-framework/tfsdk.RequiresReplace()"}}
		c.ComputedFields = []string{"Cu.CL"}
		c.UseStateForUnknownByDefault = true
	})})
	add(&Variant{Name: "flags:required+computed+sensitive", Prop: "C11", Base: "P-multi", Quick: true, CfgA: noExcl, Mut: withCfg(func(c *Config) {
		c.RequiredFields = []string{"A.Own", "Shared.Str"}
		c.ComputedFields = []string{"A.X.Num", "Mid.Tag"}
		c.SensitiveFields = []string{"Shared.Flag"}
		c.Validators = map[string][]string{"A.Own": {"vp/p.UseMockValidator()"}}
		c.PlanModifiers = map[string][]string{"Shared.Num": {"github.com/hashicorp/terraform-plugin-framework/tfsdk.RequiresReplace()"}}
		// A.X.Num is computed by path and carries a plan modifier by Message.Field: the explicit list wins over the default
		c.UseStateForUnknownByDefault = true
	})})
	// C12: selected types are independent of the rest of the request
	add(&Variant{Name: "types:A-vs-A+B", Prop: "C12", Base: "P-multi", Quick: true, CfgA: func(c *Config) { c.Types = []string{"A"} },
		Mut: withCfg(func(c *Config) { c.Types = []string{"A", "B"} }), Roots: []string{"A"}})
	add(&Variant{Name: "types:N1-vs-N1+N2", Prop: "C12", Base: "P-nest", Quick: true, CfgA: func(c *Config) { c.Types = []string{"N1"} },
		Mut: withCfg(func(c *Config) { c.Types = []string{"N2", "N1"} }), Roots: []string{"N1"}})
	add(&Variant{Name: "types:Leaf-vs-Top+Mid+Leaf", Prop: "C12", Base: "P-order", Quick: true, CfgA: func(c *Config) { c.Types = []string{"Leaf"} },
		Mut: withCfg(func(c *Config) { c.Types = []string{"Top", "Mid", "Leaf"} }), Roots: []string{"Leaf"}})
	add(&Variant{Name: "types:Mid-vs-Top+Mid", Prop: "C12", Base: "P-order", Quick: true, CfgA: func(c *Config) { c.Types = []string{"Mid"} },
		Mut: withCfg(func(c *Config) { c.Types = []string{"Top", "Mid"} }), Roots: []string{"Mid"}})
	add(&Variant{Name: "extra-message", Prop: "C12", Base: "P-multi", Quick: true, Mut: extraMessage, Structs: "B"})
	add(&Variant{Name: "extra-message:P-docs", Prop: "C12", Base: "P-docs", Quick: true, Mut: extraMessage, Structs: "B"})
	add(&Variant{Name: "extra-dep-file", Prop: "C12", Base: "P-oneof", Quick: true, Mut: ident, Extra: []*d.FileDescriptorProto{extraDepFile()}})
	// C15: declaration order (sort off)
	for _, b := range []string{"P-mini", "P-oneof", "P-embed", "P-nest", "P-time", "P-embed-x", "P-mapopt", "P-docs", "P-flags", "P-sorted", "P-embed-2"} {
		add(&Variant{Name: "perm-reverse:" + b, Prop: "C15", Base: b, Quick: true, Mut: permute})
	}
	for _, b := range []string{"P-mini", "P-multi", "P-scal-S1", "P-embed-x", "P-docs"} {
		add(&Variant{Name: "perm-rotate:" + b, Prop: "C15", Base: b, Quick: b != "P-scal-S1", Mut: rotate})
	}
	add(&Variant{Name: "perm-reverse+sort:P-mini", Prop: "C15", Base: "P-mini", Quick: true, Mut: func(f *d.FileDescriptorProto, c *Config) (*d.FileDescriptorProto, *Config) {
		n, _ := permute(f, c)
		c2 := c.clone()
		c2.Sort = true
		return n, c2
	}})
	return vs
}

func findVariant(name string) *Variant {
	for _, v := range variants() {
		if v.Name == name {
			return v
		}
	}
	return nil
}

func qualifyForSepPackage(c *Config, structPkg string) *Config {
	n := c.clone()
	n.DefaultPackageName = structPkg
	n.TargetPackageName = "tb"
	q := func(t *SchemaType) {
		if t == nil {
			return
		}
		if !strings.Contains(t.Type, ".") {
			t.Type = structPkg + "." + t.Type
		}
		if !strings.Contains(t.ValueType, ".") {
			t.ValueType = structPkg + "." + t.ValueType
		}
	}
	q(n.TimeType)
	q(n.DurationType)
	for k, st := range n.SchemaTypes {
		st := st
		q(&st)
		n.SchemaTypes[k] = st
	}
	// unqualified validator / plan modifier constructors live in the struct package
	qs := func(l []string) []string {
		out := make([]string, len(l))
		for i, x := range l {
			if !strings.Contains(x, ".") {
				x = structPkg + "." + x
			}
			out[i] = x
		}
		return out
	}
	for k, l := range n.Validators {
		n.Validators[k] = qs(l)
	}
	for k, l := range n.PlanModifiers {
		n.PlanModifiers[k] = qs(l)
	}
	for k, inj := range n.InjectedFields {
		for i := range inj {
			inj[i].Validators = qs(inj[i].Validators)
			inj[i].PlanModifiers = qs(inj[i].PlanModifiers)
		}
		n.InjectedFields[k] = inj
	}
	return n
}

// buildVariant assembles the scratch module of one differential check.
func buildVariant(v *Variant, pluginBin, out string, kl, km int) (*BuildInfo, error) {
	base := findProgram(v.Base)
	if base == nil {
		return nil, fmt.Errorf("unknown base program %s", v.Base)
	}
	fileA := base.File().build()
	cfgA := base.Cfg()
	if v.CfgA != nil {
		v.CfgA(cfgA)
	}
	fileB, cfgB := v.Mut(fileA, cfgA)
	structs := fileA
	if v.Structs == "B" {
		structs = fileB
	}
	// A: same-package generation into p (the baseline pipeline)
	pa := *base
	pa.Families = nil
	pa.File = nil
	pa.Raw = func() *d.FileDescriptorProto { return fileA }
	pa.Cfg = func() *Config { return cfgA }
	info, err := buildProgramWithStructs(&pa, pluginBin, out, kl, km, structs)
	if err != nil {
		return nil, fmt.Errorf("variant A: %v", err)
	}
	// B: separate package tb over the same structs
	pkg := fileA.GetPackage()
	cfgBq := qualifyForSepPackage(cfgB, modName+"/"+pkg)
	if v.Alias {
		// default_package_name: structs + import_path_overrides: {structs: <full import path>}
		// (the README's example names the struct package `types`, like the framework's own types package)
		cfgBq = qualifyForSepPackage(cfgB, "types")
		if cfgBq.ImportPathOverrides == nil {
			cfgBq.ImportPathOverrides = map[string]string{}
		}
		cfgBq.ImportPathOverrides["types"] = modName + "/" + pkg
	}
	cfgPath := filepath.Join(out, "cfgB.yaml")
	writeFile(cfgPath, cfgBq.yaml())
	req := buildRequest(fileB, "config="+cfgPath, v.Extra...)
	resp, err := runPlugin(pluginBin, req, filepath.Join(out, "pluginB.log"))
	if err != nil {
		return nil, fmt.Errorf("variant B: %v", err)
	}
	if len(resp.File) != 1 {
		return nil, fmt.Errorf("variant B: expected one file, got %d", len(resp.File))
	}
	genB := filepath.Join(out, "tb", filepath.Base(resp.File[0].GetName()))
	writeFile(genB, []byte(resp.File[0].GetContent()))
	info.Generated = genB
	{
		roots := v.Roots
		if roots == nil {
			roots = cfgA.Types
		}
		for _, rn := range roots {
			for _, fn := range []string{"GenSchema" + rn, "Copy" + rn + "FromTerraform", "Copy" + rn + "ToTerraform"} {
				if !strings.Contains(resp.File[0].GetContent(), "func "+fn+"(") {
					info.Missing = append(info.Missing, fn)
				}
			}
		}
		if len(info.Missing) > 0 {
			// the differential harness cannot be written against functions that do not exist: reported
			// by the runner as a violation of the variant's property (concrete evidence: the generated file)
			info.Pkg = "tb"
			b, _ := json.MarshalIndent(info, "", " ")
			ioutil.WriteFile(filepath.Join(out, "build.json"), b, 0644)
			return info, nil
		}
	}
	if base.SepHooks != "" {
		writeFile(filepath.Join(out, "tb", "zz_hooks.go"), []byte(base.SepHooks))
	}
	// harness in tb
	ma := NewModelP(fileA, cfgA, "A_")
	mb := NewModelP(fileB, cfgB, "B_")
	g := &Gen{m: ma, KL: kl, KM: km, done: map[string]bool{}, TQ: "sp.", SQ: "sp.", FQ: "sp.", HookPassThrough: !base.RepoSupport}
	roots := v.Roots
	if roots == nil {
		roots = cfgA.Types
	}
	for _, rn := range roots {
		var oa, ob *Occ
		for _, r := range ma.Roots {
			if r.MsgName == rn {
				oa = r
			}
		}
		for _, r := range mb.Roots {
			if r.MsgName == rn {
				ob = r
			}
		}
		if oa == nil || ob == nil {
			return nil, fmt.Errorf("root %s is not generated by both variants", rn)
		}
		g.m = ma
		g.havocMsg(oa.Msg)
		g.attrTypes(oa)
		g.havocTF(oa)
		g.m = mb
		g.harnessDiff(oa, ob, v.Prop)
		info.Roots = append(info.Roots, rn)
	}
	info.Harnesses = g.hs
	info.Pkg = "tb"
	_ = base
	info.ModelErrs = append(ma.Errs, mb.Errs...)
	imports := []string{`"context"`, `"time"`, `"strconv"`, `"github.com/hashicorp/terraform-plugin-framework/attr"`, `"github.com/hashicorp/terraform-plugin-framework/diag"`,
		`"github.com/hashicorp/terraform-plugin-framework/types"`, `"github.com/hashicorp/terraform-plugin-framework/tfsdk"`, `"` + modName + `/vrt"`, `sp "` + modName + `/` + pkg + `"`}
	writeFile(filepath.Join(out, "tb", "zz_spec.go"), []byte(g.file("tb", imports)+"\nvar _ sp."+roots[0]+"\n"))
	writeFile(filepath.Join(out, "cmd/replay/main.go"), []byte(strings.ReplaceAll(replayMain, "PKG", "tb")))
	b, _ := json.MarshalIndent(info, "", " ")
	ioutil.WriteFile(filepath.Join(out, "build.json"), b, 0644)
	return info, nil
}
