#!/bin/sh
cd /verif && exec python3 check.py C04 --replay /verif/replays/C04/P-oneof-dur-C04_OD_O_branch-1
