#!/bin/sh
cd /verif && exec python3 check.py C04 --replay /verif/replays/C04/P-embed-x-no_panic-2
