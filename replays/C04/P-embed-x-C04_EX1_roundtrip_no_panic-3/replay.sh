#!/bin/sh
cd /verif && exec python3 check.py C04 --replay /verif/replays/C04/P-embed-x-C04_EX1_roundtrip_no_panic-3
