#!/bin/sh
cd /verif && exec python3 check.py C04 --replay /verif/replays/C04/P-empty-C04_Em_E_nil-5
