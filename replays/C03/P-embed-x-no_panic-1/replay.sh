#!/bin/sh
cd /verif && exec python3 check.py C03 --replay /verif/replays/C03/P-embed-x-no_panic-1
