#!/bin/sh
cd /verif && exec python3 check.py C03 --replay /verif/replays/C03/P-embed-x-C03_EX1_copyto_no_panic-2
