#!/bin/sh
cd /verif && exec python3 check.py C07 --replay /verif/replays/C07/P-oneof-dur-C07_OD_o_dc_inactive_null-2
