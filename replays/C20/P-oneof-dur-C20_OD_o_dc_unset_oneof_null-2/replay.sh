#!/bin/sh
cd /verif && exec python3 check.py C20 --replay /verif/replays/C20/P-oneof-dur-C20_OD_o_dc_unset_oneof_null-2
