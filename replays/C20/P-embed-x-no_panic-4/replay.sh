#!/bin/sh
cd /verif && exec python3 check.py C20 --replay /verif/replays/C20/P-embed-x-no_panic-4
