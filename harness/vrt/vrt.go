// Package vrt is the nondet runtime of the harnesses. The symbolic engine
// intercepts every function here; this file is the native side used for
// replaying solver models against the real build.
package vrt

import (
	"encoding/json"
	"fmt"
	"math"
	"os"
	"strconv"
	"time"
	"unsafe"

	"github.com/hashicorp/terraform-plugin-framework/attr"
)

type entry struct {
	T string `json:"t"`
	V string `json:"v"`
}

var (
	vec     []entry
	pos     int
	desync  []string
	Failed  []string
	Known   []string
	Reached []string
	Events  []string
)

// Load reads a replay vector (JSON list of {t,v}); a missing file means all zeros.
func Load(path string) {
	vec, pos, desync, Failed, Known, Reached, Events = nil, 0, nil, nil, nil, nil, nil
	if path == "" {
		return
	}
	b, err := os.ReadFile(path)
	if err != nil {
		panic(err)
	}
	if err := json.Unmarshal(b, &vec); err != nil {
		panic(err)
	}
}

func next(tag string) string {
	if pos >= len(vec) {
		pos++
		return ""
	}
	e := vec[pos]
	pos++
	if e.T != tag {
		desync = append(desync, fmt.Sprintf("draw %d: vector has %s, harness asked for %s", pos-1, e.T, tag))
		return ""
	}
	return e.V
}

func u64(tag string) uint64 {
	v := next(tag)
	if v == "" {
		return 0
	}
	n, _ := strconv.ParseUint(v, 10, 64)
	return n
}

func Bool() bool       { return next("bool") == "true" }
func Int32() int32     { return int32(uint32(u64("i32"))) }
func Int64() int64     { return int64(u64("i64")) }
func Uint32() uint32   { return uint32(u64("u32")) }
func Uint64() uint64   { return u64("u64") }
func Float32() float32 { return math.Float32frombits(uint32(u64("f32"))) }
func Float64() float64 { return math.Float64frombits(u64("f64")) }
func String() string   { return next("str") }
func Len(max int) int {
	n := int(u64("len"))
	if n > max {
		desync = append(desync, fmt.Sprintf("len %d above bound %d", n, max))
		n = max
	}
	return n
}

// Bytes draws nil | a byte string.
func Bytes() []byte {
	n := Bool()
	s := String()
	if n {
		return nil
	}
	return []byte(s)
}

type timeMirror struct {
	wall uint64
	ext  int64
	loc  *time.Location
}

var someLoc = time.FixedZone("VRT", 3600)

// Time draws an arbitrary time.Time representation (wall, ext, location nil or not).
func Time() time.Time {
	w := Uint64()
	x := Int64()
	l := Bool()
	var t time.Time
	m := (*timeMirror)(unsafe.Pointer(&t))
	m.wall, m.ext = w, x
	if !l {
		m.loc = someLoc
	}
	return t
}

type assumeFailed struct{}

func Assume(c bool) {
	if !c {
		panic(assumeFailed{})
	}
}

func Assert(label string, ok bool) {
	if !ok {
		Failed = append(Failed, label)
	}
}

func AssertExcept(label string, ok bool, excuse string, excused bool) {
	if !ok {
		if excused {
			Known = append(Known, label+"|"+excuse)
		} else {
			Failed = append(Failed, label)
		}
	}
}

func Reach(label string)  { Reached = append(Reached, label) }
func Event(name string)   { Events = append(Events, name) }
func CheckNoPanic(string) {}

// SameType is deep equality of attr.Type values.
func SameType(a, b attr.Type) (eq bool) {
	if a == nil || b == nil {
		return a == nil && b == nil
	}
	defer func() {
		if recover() != nil {
			eq = false
		}
	}()
	return a.Equal(b)
}

// Run executes a harness and prints the replay report as JSON on stdout.
func Run(f func()) {
	rep := map[string]interface{}{}
	func() {
		defer func() {
			if r := recover(); r != nil {
				if _, ok := r.(assumeFailed); ok {
					rep["assume_failed"] = true
					return
				}
				rep["panic"] = fmt.Sprint(r)
			}
		}()
		f()
	}()
	rep["failed"], rep["known"], rep["reached"], rep["events"] = Failed, Known, Reached, Events
	rep["draws"], rep["vector_len"], rep["desync"] = pos, len(vec), desync
	b, _ := json.Marshal(rep)
	fmt.Println(string(b))
}
