package main

// K4 (C10, C11): flag lookup, validators, plan modifiers by path / Message.Field.

import (
	"github.com/gogo/protobuf/protoc-gen-gogo/descriptor"
	"github.com/gogo/protobuf/protoc-gen-gogo/generator"
)

func vrtFlagMap(k int) flagMap {
	m := flagMap{}
	n := vrtLen(k)
	for i := 0; i < k; i++ {
		s := vrtString()
		if i < n {
			m[s] = struct{}{}
		}
	}
	return m
}

func vrtListMap(k int) map[string][]string {
	m := map[string][]string{}
	n := vrtLen(k)
	for i := 0; i < k; i++ {
		key := vrtString()
		a, b := vrtString(), vrtString()
		two := vrtBool()
		v := []string{a}
		if two {
			v = []string{a, b}
		}
		if i < n {
			m[key] = v
		}
	}
	return m
}

func sameList(a, b []string) bool {
	if len(a) != len(b) {
		return false
	}
	for i := range a {
		if a[i] != b[i] {
			return false
		}
	}
	return true
}

// Harness_K4_Flags: a flag list affects a field iff it lists the field's path or its Message.Field key.
func Harness_K4_Flags() {
	ex, co, re, se := vrtFlagMap(2), vrtFlagMap(2), vrtFlagMap(2), vrtFlagMap(2)
	cfg := &Config{ExcludeFields: ex, ComputedFields: co, RequiredFields: re, SensitiveFields: se}
	c := &FieldBuildContext{typeName: vrtString(), path: vrtString()}
	c.config = cfg
	in := func(m flagMap) bool {
		_, a := m[c.typeName]
		_, b := m[c.path]
		return a || b
	}
	vrtAssert("C11/K4/excluded-iff-path-or-key", c.IsExcluded() == in(ex))
	vrtAssert("C10/K4/computed-iff-listed", c.IsComputed() == in(co))
	vrtAssert("C10/K4/required-iff-listed", c.GetFlagValue(c.config.RequiredFields) == in(re))
	vrtAssert("C10/K4/sensitive-iff-listed", c.GetFlagValue(c.config.SensitiveFields) == in(se))
	vrtAssert("C11/K4/both-key-forms", c.GetFlagValue(ex) == in(ex))
	vrtReach("K4/flags/end")
}

// Harness_K4_Lists: validators / plan modifiers are the configured list (path first, then key),
// UseStateForUnknown is the default for computed attributes without explicit plan modifiers.
func Harness_K4_Lists() {
	va, pm := vrtListMap(2), vrtListMap(2)
	co, re := vrtFlagMap(2), vrtFlagMap(2)
	cfg := &Config{Validators: va, PlanModifiers: pm, ComputedFields: co, RequiredFields: re, UseStateForUnknownByDefault: vrtBool()}
	c := &FieldBuildContext{typeName: vrtString(), path: vrtString()}
	c.config = cfg
	gotV := c.GetValidators()
	if v, ok := va[c.path]; ok {
		vrtAssert("C10+C11/K4/validators-by-path", sameList(gotV, v))
	} else if v, ok := va[c.typeName]; ok {
		vrtAssert("C10+C11/K4/validators-by-key", sameList(gotV, v))
	} else {
		vrtAssert("C10+C11/K4/validators-none", len(gotV) == 0)
	}
	_, c1 := co[c.typeName]
	_, c2 := co[c.path]
	gotP := c.GetPlanModifiers()
	if v, ok := pm[c.path]; ok {
		vrtAssert("C10+C11/K4/plan-modifiers-by-path", sameList(gotP, v))
	} else if v, ok := pm[c.typeName]; ok {
		vrtAssert("C10+C11/K4/plan-modifiers-by-key", sameList(gotP, v))
	} else if cfg.UseStateForUnknownByDefault && (c1 || c2) {
		vrtAssert("C10+C11/K4/use-state-for-unknown-default", len(gotP) == 1 && gotP[0] == "github.com/hashicorp/terraform-plugin-framework/tfsdk.UseStateForUnknown()")
	} else {
		vrtAssert("C10+C11/K4/plan-modifiers-none", len(gotP) == 0)
	}
	vrtReach("K4/lists/end")
}

// Harness_K4_MessageKey (C10, C11): the "Message" of a Message.Field option key is the proto name of
// the message (not its Go type name, not its path), and the Go type is that name in the struct package.
func Harness_K4_MessageKey() {
	name, pkg := vrtString(), vrtString()
	dp := &descriptor.DescriptorProto{Name: &name}
	mc := MessageBuildContext{desc: &generator.Descriptor{DescriptorProto: dp}, config: &Config{DefaultPackageName: pkg}}
	vrtAssert("C10+C11/K4/message-key-is-proto-name", mc.GetName() == name)
	want := name
	if pkg != "" {
		want = pkg + "." + name
	}
	vrtAssert("C10+C11/K4/message-go-type", mc.GetGoType() == want)
	vrtReach("K4/messagekey/end")
}
