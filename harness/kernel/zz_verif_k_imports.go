package main

// K9 (C13): package qualification of Go types for separate-package generation.
// K12 (C12): Plugin.write emits the three functions for root messages only.

import (
	"bytes"
	"strings"

	"github.com/gogo/protobuf/protoc-gen-gogo/generator"
)

// vrtSingle / vrtPluginImports: a deterministic stand-in for gogo's import bookkeeping (the qualifier
// is a function of the import path only).
type vrtSingle struct{ name string }

func (s vrtSingle) Use() string      { return s.name }
func (s vrtSingle) IsUsed() bool     { return true }
func (s vrtSingle) Name() string     { return s.name }
func (s vrtSingle) Location() string { return s.name }

type vrtPluginImports struct{}

func (vrtPluginImports) NewImport(pkg string) generator.Single {
	return vrtSingle{name: "q_" + strings.ReplaceAll(pkg, "/", "_")}
}
func (vrtPluginImports) GenerateImports(file *generator.FileDescriptor) {}

var vrtBuiltins = []string{"bool", "string", "int", "int8", "int16", "int32", "int64", "uint", "uint8", "uint16", "uint32", "uint64",
	"uintptr", "byte", "rune", "float32", "float64", "complex64", "complex128"}

var vrtMods = []string{"", "*", "[]", "[]*", "map[string]", "map[string]*"}

func vrtQual(path string) string { return "q_" + strings.ReplaceAll(path, "/", "_") }

// Harness_K9_Prepend: a type gets the struct package prefix iff it is not builtin, not already
// qualified and a default package is configured; slice / pointer / map modifiers are preserved.
func Harness_K9_Prepend() {
	mod := vrtMods[vrtLen(5)]
	name := vrtString()
	pkg := vrtString()
	qualified := vrtBool()
	qpath := vrtString()
	vrtAssume(vrtIdent(name) && name != "" && !strings.Contains(name, "."))
	vrtAssume(vrtDotPath(pkg) && vrtDotPath(qpath) && qpath != "")
	typ := name
	if qualified {
		typ = qpath + "." + name
	}
	t := mod + typ
	i := NewImports(vrtPluginImports{}, nil)
	got := i.PrependPackageNameIfMissing(t, pkg)
	switch {
	case qualified || pkg == "" || inStrs(vrtBuiltins, name):
		vrtAssert("C13/K9/unchanged-when-qualified-builtin-or-no-package", got == t)
	default:
		vrtAssert("C13/K9/prefixed-with-struct-package", got == mod+vrtQual(pkg)+"."+name)
	}
	vrtReach("K9/prepend/end")
}

// Harness_K9_WithType: a qualified type is rewritten to <modifiers><qualifier>.<Name>, an unqualified
// one is left alone; import_path_overrides redirect the import path.
func Harness_K9_WithType() {
	mod := vrtMods[vrtLen(5)]
	name := vrtString()
	qualified := vrtBool()
	qpath := vrtString()
	override := vrtBool()
	opath := vrtString()
	vrtAssume(vrtIdent(name) && name != "" && !strings.Contains(name, "."))
	vrtAssume(vrtDotPath(qpath) && qpath != "" && vrtDotPath(opath) && opath != "")
	typ := name
	if qualified {
		typ = qpath + "." + name
	}
	var ov map[string]string
	if override {
		ov = map[string]string{qpath: opath}
	}
	i := NewImports(vrtPluginImports{}, ov)
	got := i.WithType(mod + typ)
	switch {
	case !qualified:
		vrtAssert("C13/K9/unqualified-left-alone", got == mod+typ)
	case override:
		vrtAssert("C13/K9/import-path-override-honoured", got == mod+vrtQual(opath)+"."+name)
	default:
		vrtAssert("C13/K9/qualifier-and-modifiers", got == mod+vrtQual(qpath)+"."+name)
	}
	vrtReach("K9/withtype/end")
}

// Harness_K9_WithCall (C10): validators and plan modifiers are configured as calls, optionally
// qualified by an import path ("path/pkg.Name(args)"). Rendering qualifies the function name and
// leaves the arguments alone, whatever they contain (dots in string or float literals included).
// Assumption: the arguments contain none of "[]*" (the modifier scan of typAndMod is not call-aware).
func Harness_K9_WithCall() {
	name, args, qpath := vrtString(), vrtString(), vrtString()
	qualified := vrtBool()
	vrtAssume(vrtIdent(name) && name != "" && !strings.Contains(name, "."))
	vrtAssume(vrtDotPath(qpath) && qpath != "")
	vrtAssume(vrtPrintable(args) && !strings.Contains(args, "[") && !strings.Contains(args, "]") && !strings.Contains(args, "*"))
	call := name + "(" + args + ")"
	t := call
	if qualified {
		t = qpath + "." + call
	}
	i := NewImports(vrtPluginImports{}, nil)
	got := i.WithType(t)
	if qualified {
		vrtAssert("C10/K9/qualified-call-keeps-its-arguments", got == vrtQual(qpath)+"."+call)
	} else {
		vrtAssert("C10/K9/unqualified-call-left-alone", got == t)
	}
	vrtReach("K9/withcall/end")
}

// Harness_K12_Write: for every list of messages (root or nested) write emits GenSchema / CopyFrom /
// CopyTo exactly for the root ones, each once, and the shared code once.
func Harness_K12_Write() {
	ra, rb, rc := vrtBool(), vrtBool(), vrtBool()
	ms := []*Message{
		{Name: "Aaa", GoType: "Aaa", IsRoot: ra, Fields: []*Field{}},
		{Name: "Bbb", GoType: "Bbb", IsRoot: rb, Fields: []*Field{}},
		{Name: "Ccc", GoType: "Ccc", IsRoot: rc, Fields: []*Field{}},
	}
	p := NewPlugin()
	p.Imports = NewImports(vrtPluginImports{}, nil)
	var buf bytes.Buffer
	err := p.write(ms, &buf)
	vrtAssert("C12/K12/write-no-error", err == nil)
	out := vrtEmitted(&buf)
	one := func(b bool) int {
		if b {
			return 1
		}
		return 0
	}
	for i, r := range []bool{ra, rb, rc} {
		n := ms[i].Name
		vrtAssert("C12/K12/schema-iff-root", vrtCount(out, "func GenSchema"+n+"(") == one(r))
		vrtAssert("C12/K12/copyfrom-iff-root", vrtCount(out, "func Copy"+n+"FromTerraform(") == one(r))
		vrtAssert("C12/K12/copyto-iff-root", vrtCount(out, "func Copy"+n+"ToTerraform(") == one(r))
	}
	vrtAssert("C12/K12/shared-code-once", vrtCount(out, "type attrReadMissingDiag struct") == 1)
	vrtReach("K12/write/end")
}

// Harness_K12_Register: RegisterMessage records every message it is given (root or nested, whatever
// is already registered) - write() relies on finding every root message in the list.
func Harness_K12_Register() {
	n := vrtLen(2)
	names := [2]string{vrtString(), vrtString()}
	roots := [2]bool{vrtBool(), vrtBool()}
	p := NewPlugin()
	for i := 0; i < 2; i++ {
		if i < n {
			p.Messages = append(p.Messages, &Message{Name: names[i], IsRoot: roots[i]})
		}
	}
	m := &Message{Name: vrtString(), IsRoot: vrtBool()}
	before := len(p.Messages)
	p.RegisterMessage(m)
	vrtAssert("C12/K12/register-appends", len(p.Messages) == before+1)
	if len(p.Messages) == before+1 {
		vrtAssert("C12/K12/register-keeps-the-message", p.Messages[before] == m)
	}
	vrtReach("K12/register/end")
}
