package main

// Level-K nondet runtime, overlaid into /repo's package main as zz_verif_rt.go.
// The symbolic engine intercepts every vrt* function; this is the native side
// used to replay solver models against the real code.

import (
	"encoding/json"
	"fmt"
	"os"
	"strconv"

	"github.com/gogo/protobuf/gogoproto"
	gogoproto_proto "github.com/gogo/protobuf/proto"
	"github.com/gogo/protobuf/protoc-gen-gogo/descriptor"
	"github.com/gogo/protobuf/protoc-gen-gogo/generator"
	plugin_go "github.com/gogo/protobuf/protoc-gen-gogo/plugin"
	gproto "google.golang.org/protobuf/proto"
	"google.golang.org/protobuf/reflect/protodesc"
	"google.golang.org/protobuf/types/known/durationpb"
	"google.golang.org/protobuf/types/known/timestamppb"
)

type vrtEntry struct {
	T string `json:"t"`
	V string `json:"v"`
}

var (
	vrtVec     []vrtEntry
	vrtPos     int
	vrtDesync  []string
	vrtFailed  []string
	vrtKnown   []string
	vrtReached []string
	vrtEvents  []string
)

func vrtLoad(path string) {
	vrtVec, vrtPos, vrtDesync, vrtFailed, vrtKnown, vrtReached, vrtEvents = nil, 0, nil, nil, nil, nil, nil
	if path == "" {
		return
	}
	b, err := os.ReadFile(path)
	if err != nil {
		panic(err)
	}
	if err := json.Unmarshal(b, &vrtVec); err != nil {
		panic(err)
	}
}

func vrtNext(tag string) string {
	if vrtPos >= len(vrtVec) {
		vrtPos++
		return ""
	}
	e := vrtVec[vrtPos]
	vrtPos++
	if e.T != tag {
		vrtDesync = append(vrtDesync, fmt.Sprintf("draw %d: vector has %s, harness asked for %s", vrtPos-1, e.T, tag))
		return ""
	}
	return e.V
}

func vrtU64(tag string) uint64 {
	v := vrtNext(tag)
	if v == "" {
		return 0
	}
	n, _ := strconv.ParseUint(v, 10, 64)
	return n
}

func vrtBool() bool     { return vrtNext("bool") == "true" }
func vrtInt32() int32   { return int32(uint32(vrtU64("i32"))) }
func vrtInt64() int64   { return int64(vrtU64("i64")) }
func vrtString() string { return vrtNext("str") }
func vrtLen(max int) int {
	n := int(vrtU64("len"))
	if n > max {
		vrtDesync = append(vrtDesync, fmt.Sprintf("len %d above bound %d", n, max))
		n = max
	}
	return n
}

type vrtAssumeFailed struct{}

func vrtAssume(c bool) {
	if !c {
		panic(vrtAssumeFailed{})
	}
}

func vrtAssert(label string, ok bool) {
	if !ok {
		vrtFailed = append(vrtFailed, label)
	}
}

func vrtAssertExcept(label string, ok bool, excuse string, excused bool) {
	if !ok {
		if excused {
			vrtKnown = append(vrtKnown, label+"|"+excuse)
		} else {
			vrtFailed = append(vrtFailed, label)
		}
	}
}

func vrtReach(label string)        { vrtReached = append(vrtReached, label) }
func vrtCheckNoPanic(label string) {}

// vrtOpts is the gogoproto option record of one field.
type vrtOpts struct {
	HasJSONTag  bool
	JSONTag     string
	StdTime     bool
	StdDuration bool
	Embed       bool
	HasNullable bool
	Nullable    bool
	CastType    string // "" = absent
	CustomType  string // "" = absent
}

// vrtFieldOptions builds real FieldOptions carrying the gogoproto extensions.
func vrtFieldOptions(o vrtOpts) *descriptor.FieldOptions {
	fo := &descriptor.FieldOptions{}
	set := func(e *gogoproto_proto.ExtensionDesc, v interface{}) {
		if err := gogoproto_proto.SetExtension(fo, e, v); err != nil {
			panic(err)
		}
	}
	if o.HasJSONTag {
		s := o.JSONTag
		set(gogoproto.E_Jsontag, &s)
	}
	if o.StdTime {
		b := true
		set(gogoproto.E_Stdtime, &b)
	}
	if o.StdDuration {
		b := true
		set(gogoproto.E_Stdduration, &b)
	}
	if o.Embed {
		b := true
		set(gogoproto.E_Embed, &b)
	}
	if o.HasNullable {
		b := o.Nullable
		set(gogoproto.E_Nullable, &b)
	}
	if o.CastType != "" {
		s := o.CastType
		set(gogoproto.E_Casttype, &s)
	}
	if o.CustomType != "" {
		s := o.CustomType
		set(gogoproto.E_Customtype, &s)
	}
	return fo
}

var vrtGen *generator.Generator

// vrtGenerator returns a real gogo generator over a fixed universe of types:
// .p.Msg, .p.T.MEntry (map<string,string>), .p.T.IEntry (map<int32,string>), Timestamp, Duration.
func vrtGenerator() *generator.Generator {
	if vrtGen != nil {
		return vrtGen
	}
	conv := func(m gproto.Message) *descriptor.FileDescriptorProto {
		b, _ := gproto.Marshal(m)
		fd := &descriptor.FileDescriptorProto{}
		if err := gogoproto_proto.Unmarshal(b, fd); err != nil {
			panic(err)
		}
		return fd
	}
	ts := conv(protodesc.ToFileDescriptorProto(timestamppb.File_google_protobuf_timestamp_proto))
	du := conv(protodesc.ToFileDescriptorProto(durationpb.File_google_protobuf_duration_proto))
	s := func(x string) *string { return &x }
	i := func(x int32) *int32 { return &x }
	tStr, tI32 := descriptor.FieldDescriptorProto_TYPE_STRING, descriptor.FieldDescriptorProto_TYPE_INT32
	opt := descriptor.FieldDescriptorProto_LABEL_OPTIONAL
	yes := true
	entry := func(name string, key *descriptor.FieldDescriptorProto_Type) *descriptor.DescriptorProto {
		return &descriptor.DescriptorProto{Name: s(name), Options: &descriptor.MessageOptions{MapEntry: &yes}, Field: []*descriptor.FieldDescriptorProto{
			{Name: s("key"), Number: i(1), Type: key, Label: &opt, JsonName: s("key")},
			{Name: s("value"), Number: i(2), Type: &tStr, Label: &opt, JsonName: s("value")},
		}}
	}
	file := &descriptor.FileDescriptorProto{Name: s("p.proto"), Package: s("p"), Syntax: s("proto3"),
		Dependency: []string{"google/protobuf/timestamp.proto", "google/protobuf/duration.proto"},
		MessageType: []*descriptor.DescriptorProto{
			{Name: s("Msg")},
			{Name: s("T"), NestedType: []*descriptor.DescriptorProto{entry("MEntry", &tStr), entry("IEntry", &tI32)}},
		}}
	g := generator.New()
	g.Request = &plugin_go.CodeGeneratorRequest{FileToGenerate: []string{"p.proto"}, ProtoFile: []*descriptor.FileDescriptorProto{ts, du, file}}
	g.CommandLineParameters("")
	g.WrapTypes()
	g.SetPackageNames()
	g.BuildTypeNameMap()
	vrtGen = g
	return g
}

// vrtRun executes a harness and prints the replay report as JSON. With VRT_REPEAT=n the harness is
// executed up to n times on the same vector (Go randomises the map iteration order on every range
// statement, so repetition explores schedules) and the first failing run is reported.
func vrtRun(f func()) {
	repeat, _ := strconv.Atoi(os.Getenv("VRT_REPEAT"))
	if repeat < 1 {
		repeat = 1
	}
	var rep map[string]interface{}
	for run := 1; run <= repeat; run++ {
		vrtPos, vrtDesync, vrtFailed, vrtKnown, vrtReached, vrtEvents = 0, nil, nil, nil, nil, nil
		rep = map[string]interface{}{"runs": run}
		func() {
			defer func() {
				if r := recover(); r != nil {
					if _, ok := r.(vrtAssumeFailed); ok {
						rep["assume_failed"] = true
						return
					}
					rep["panic"] = fmt.Sprint(r)
				}
			}()
			f()
		}()
		rep["failed"], rep["known"], rep["reached"], rep["events"] = vrtFailed, vrtKnown, vrtReached, vrtEvents
		rep["draws"], rep["vector_len"], rep["desync"] = vrtPos, len(vrtVec), vrtDesync
		if want := os.Getenv("VRT_TARGET"); want != "" {
			hit := false
			for _, l := range vrtFailed {
				hit = hit || l == want
			}
			if hit {
				break
			}
		} else if len(vrtFailed) > 0 || rep["panic"] != nil {
			break
		}
	}
	b, _ := json.Marshal(rep)
	fmt.Println("VRT-REPORT " + string(b))
}

// vrtPrintable: printable ASCII plus tab / LF / CR (the alphabet of the string kernels).
func vrtPrintable(s string) bool {
	for i := 0; i < len(s); i++ {
		c := s[i]
		if !(c >= 32 && c <= 126) && c != '\t' && c != '\n' && c != '\r' {
			return false
		}
	}
	return true
}

// vrtIdent: letters, digits, '.', '_' only (may be empty).
func vrtIdent(s string) bool {
	for i := 0; i < len(s); i++ {
		c := s[i]
		if !(c >= 'a' && c <= 'z') && !(c >= 'A' && c <= 'Z') && !(c >= '0' && c <= '9') && c != '.' && c != '_' {
			return false
		}
	}
	return true
}

// vrtConfigFile natively creates the configuration file the environment holds: a missing file,
// an unparsable one, or a YAML file listing one type (when typ is empty: an explicit empty list if
// emptyList, else no `types` key at all).
func vrtConfigFile(readErr, yamlErr, emptyList bool, typ string) string {
	dir, err := os.MkdirTemp("", "vrtcfg")
	if err != nil {
		panic(err)
	}
	p := dir + "/config.yaml"
	if readErr {
		return p
	}
	content := "sort: false\n"
	if emptyList {
		content = "types: []\n"
	}
	if typ != "" {
		content = "types:\n  - \"" + typ + "\"\n"
	}
	if yamlErr {
		content = "types: [unterminated\n  - : :\n"
	}
	if err := os.WriteFile(p, []byte(content), 0644); err != nil {
		panic(err)
	}
	return p
}

// vrtConfigFileS: like vrtConfigFile, and the file also holds a suffixes map of up to two entries
// (an entry with an empty key is absent).
func vrtConfigFileS(readErr, yamlErr, emptyList bool, typ string, k1, v1, k2, v2 string) string {
	p := vrtConfigFile(readErr, yamlErr, emptyList, typ)
	if readErr || yamlErr {
		return p
	}
	b, err := os.ReadFile(p)
	if err != nil {
		panic(err)
	}
	content := string(b)
	if k1 != "" || k2 != "" {
		content += "suffixes:\n"
		if k1 != "" {
			content += "  " + strconv.Quote(k1) + ": " + strconv.Quote(v1) + "\n"
		}
		if k2 != "" {
			content += "  " + strconv.Quote(k2) + ": " + strconv.Quote(v2) + "\n"
		}
	}
	if err := os.WriteFile(p, []byte(content), 0644); err != nil {
		panic(err)
	}
	return p
}

// vrtPath: an import path (letters, digits, '.', '_', '/', '-'), no leading or trailing '.'.
func vrtPath(s string) bool {
	for i := 0; i < len(s); i++ {
		c := s[i]
		if !(c >= 'a' && c <= 'z') && !(c >= 'A' && c <= 'Z') && !(c >= '0' && c <= '9') && c != '_' && c != '/' && c != '-' {
			return false
		}
	}
	return true
}

// vrtDotPath: an import path that may contain dots (gopkg.in/yaml.v2, example.com/api.v2).
func vrtDotPath(s string) bool {
	for i := 0; i < len(s); i++ {
		c := s[i]
		if !(c >= 'a' && c <= 'z') && !(c >= 'A' && c <= 'Z') && !(c >= '0' && c <= '9') && c != '_' && c != '/' && c != '-' && c != '.' {
			return false
		}
	}
	return true
}

// vrtEmitted / vrtCount: what write() emitted. Natively the rendered text is searched; symbolically
// the engine answers from the events recorded by the generator stubs.
func vrtEmitted(buf interface{ String() string }) string { return buf.String() }
func vrtCount(out string, marker string) int {
	n := 0
	for i := 0; i+len(marker) <= len(out); i++ {
		if out[i:i+len(marker)] == marker {
			n++
		}
	}
	return n
}
