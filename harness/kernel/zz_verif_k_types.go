package main

// K2 (C02, C18): the proto type -> Terraform type table of GetTerraformType.

import (
	"strings"

	"github.com/gogo/protobuf/protoc-gen-gogo/descriptor"
)

const (
	tfTypes = "github.com/hashicorp/terraform-plugin-framework/types"
)

func vrtSchemaType() *SchemaType {
	return &SchemaType{Type: vrtString(), ValueType: vrtString(), CastToType: vrtString(), CastFromType: vrtString(), TypeConstructor: vrtString()}
}

func scalarTF(typ, valueType, castTo, zero string) TerraformType {
	return TerraformType{Type: typ, ValueType: valueType, ElemType: typ, ElemValueType: valueType, ValueCastToType: castTo,
		ZeroValue: zero, IsTypeScalar: true, IsElemTypeScalar: true}
}

// wantTerraformType is the documented table (README "Type mapping" and property C02), written out.
func wantTerraformType(typ int32, isTime, isDuration bool, tt, dt *SchemaType, repeated, isMap, isCast bool, elemType string) (TerraformType, bool) {
	var t TerraformType
	i64 := scalarTF(tfTypes+".Int64Type", tfTypes+".Int64", "int64", "0")
	f64 := scalarTF(tfTypes+".Float64Type", tfTypes+".Float64", "float64", "0")
	str := scalarTF(tfTypes+".StringType", tfTypes+".String", "string", `""`)
	bl := scalarTF(tfTypes+".BoolType", tfTypes+".Bool", "bool", "false")
	switch {
	case isTime:
		if tt == nil {
			return t, true
		}
		t = TerraformType{Type: tt.Type, ValueType: tt.ValueType, ElemType: tt.Type, ElemValueType: tt.ValueType,
			ValueCastToType: tt.CastToType, ValueCastFromType: tt.CastFromType, TypeConstructor: tt.TypeConstructor}
	case isDuration:
		if dt == nil {
			return t, true
		}
		t = TerraformType{Type: dt.Type, ValueType: dt.ValueType, ElemType: dt.Type, ElemValueType: dt.ValueType,
			ValueCastToType: dt.CastToType, ValueCastFromType: dt.CastFromType, TypeConstructor: dt.TypeConstructor}
	case typ == 1: // double
		t = f64
		t.ValueCastFromType = "float64"
	case typ == 2: // float
		t = f64
		t.ValueCastFromType = "float32"
	case typ == 3 || typ == 16 || typ == 18: // int64 sfixed64 sint64
		t = i64
		t.ValueCastFromType = "int64"
	case typ == 4 || typ == 6: // uint64 fixed64
		t = i64
		t.ValueCastFromType = "uint64"
	case typ == 5 || typ == 15 || typ == 17: // int32 sfixed32 sint32
		t = i64
		t.ValueCastFromType = "int32"
	case typ == 13 || typ == 7: // uint32 fixed32
		t = i64
		t.ValueCastFromType = "uint32"
	case typ == 8:
		t = bl
		t.ValueCastFromType = "bool"
	case typ == 9:
		t = str
		t.ValueCastFromType = "string"
	case typ == 12:
		t = str
		t.ValueCastFromType = "[]byte"
	case typ == 14: // enum -> Int64, cast from the Go enum type
		t = i64
		t.ValueCastFromType = elemType
	case typ == 11: // message -> nested object
		t = TerraformType{Type: tfTypes + ".ObjectType", ValueType: tfTypes + ".Object", ElemType: tfTypes + ".ObjectType", ElemValueType: tfTypes + ".Object", IsMessage: true}
	default: // group: unmappable
		return t, true
	}
	if repeated {
		t.Type, t.ValueType = tfTypes+".ListType", tfTypes+".List"
	}
	if isMap {
		t.Type, t.ValueType = tfTypes+".MapType", tfTypes+".Map"
	}
	if isCast {
		t.ValueCastFromType = elemType
	}
	return t, false
}

// Harness_K2_TerraformType: every proto type, label, gogoproto std/cast option and configuration of
// time_type / duration_type / duration_custom_type; result and error against the documented table.
func Harness_K2_TerraformType() {
	typ := vrtInt32()
	vrtAssume(typ >= 1 && typ <= 18)
	rep := vrtBool()
	label := descriptor.FieldDescriptorProto_LABEL_OPTIONAL
	if rep {
		label = descriptor.FieldDescriptorProto_LABEL_REPEATED
	}
	tnChoice := vrtLen(5)
	tns := []string{"", ".p.Msg", ".p.T.MEntry", ".p.T.IEntry", ".google.protobuf.Timestamp", ".google.protobuf.Duration"}
	tn := tns[tnChoice]
	o := vrtOpts{StdTime: vrtBool(), StdDuration: vrtBool(), CastType: vrtString()}
	name := vrtString()
	pt := descriptor.FieldDescriptorProto_Type(typ)
	f := &descriptor.FieldDescriptorProto{Name: &name, Type: &pt, Label: &label, Options: vrtFieldOptions(o)}
	if tnChoice > 0 {
		f.TypeName = &tn
	}
	hasTT, hasDT := vrtBool(), vrtBool()
	tt, dt := vrtSchemaType(), vrtSchemaType()
	cfg := &Config{DurationCustomType: vrtString()}
	if hasTT {
		cfg.TimeType = tt
	} else {
		tt = nil
	}
	if hasDT {
		cfg.DurationType = dt
	} else {
		dt = nil
	}
	goType := vrtString()
	c := &FieldBuildContext{typeName: vrtString(), path: vrtString(), goType: goType, field: &FieldDescriptorProtoExt{f}}
	c.config = cfg
	c.gen = vrtGenerator()
	got, err := c.GetTerraformType()

	isMsg := typ == 11
	isMap := isMsg && rep && (tnChoice == 2 || tnChoice == 3)
	vrtAssume(!isMsg || tnChoice > 0) // a message field always names its type
	isTime := o.StdTime || strings.HasSuffix(tn, "google.protobuf.Timestamp") || o.CastType == "time.Time"
	isDur := o.StdDuration || strings.HasSuffix(tn, "google.protobuf.Duration") || o.CastType == "time.Duration" ||
		(cfg.DurationCustomType != "" && o.CastType == cfg.DurationCustomType)
	want, wantErr := wantTerraformType(typ, isTime, isDur, tt, dt, rep && !isMap, isMap, o.CastType != "", strings.ReplaceAll(goType, "[]", ""))
	vrtAssert("C18/K2/error-iff-unmappable", (err != nil) == wantErr)
	if !wantErr && err == nil {
		vrtAssert("C02/K2/type", got.Type == want.Type && got.ValueType == want.ValueType)
		vrtAssert("C02/K2/elem-type", got.ElemType == want.ElemType && got.ElemValueType == want.ElemValueType)
		vrtAssert("C02/K2/cast-to", got.ValueCastToType == want.ValueCastToType)
		vrtAssert("C02/K2/cast-from", got.ValueCastFromType == want.ValueCastFromType)
		vrtAssert("C02/K2/zero-value", got.ZeroValue == want.ZeroValue)
		vrtAssert("C02/K2/flags", got.IsMessage == want.IsMessage && got.IsTypeScalar == want.IsTypeScalar && got.IsElemTypeScalar == want.IsElemTypeScalar)
		vrtAssert("C02/K2/type-constructor", got.TypeConstructor == want.TypeConstructor)
	}
	vrtReach("K2/types/end")
}
