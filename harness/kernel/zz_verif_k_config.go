package main

// K7 (C10): comment flattening. K8 (C16, C14): command-line channel, precedence over YAML,
// '+'-separated lists, empty `types`, unreadable / unparsable configuration file.

import (
	"errors"
	"strings"
)

const vrtWS = " \t\n\r\v\f"

// refSingleLine is the reference model of the documented flattening: every line trimmed, lines
// joined by one space, the whole trimmed. Written with Index/slicing (no Split/Join).
func refSingleLine(s string, maxLines int) string {
	out := ""
	rest := s
	for k := 0; k < maxLines; k++ {
		i := strings.Index(rest, "\n")
		line := rest
		if i >= 0 {
			line = rest[:i]
		}
		if k > 0 {
			out += " "
		}
		out += strings.Trim(line, vrtWS)
		if i < 0 {
			break
		}
		rest = rest[i+1:]
	}
	return strings.Trim(out, vrtWS)
}

// Harness_K7_SingleLine: no line breaks, trimmed, equal to the reference flattening.
func Harness_K7_SingleLine() {
	s := vrtString()
	vrtAssume(vrtPrintable(s))
	vrtAssume(strings.Count(s, "\n") <= 2)
	got := Comment(s).ToSingleLine()
	vrtAssert("C10/K7/no-line-feed", !strings.Contains(got, "\n"))
	vrtAssert("C10/K7/trimmed", got == strings.Trim(got, vrtWS))
	vrtAssert("C10/K7/equals-reference-flattening", got == refSingleLine(s, 3))
	vrtReach("K7/singleline/end")
}

var vrtTrue = []string{"1", "t", "T", "TRUE", "true", "True"}
var vrtFalse = []string{"0", "f", "F", "FALSE", "false", "False"}

func inStrs(l []string, s string) bool {
	for _, x := range l {
		if x == s {
			return true
		}
	}
	return false
}

// Harness_K8_CLI: each option = the trimmed parameter if it is non-empty, else the value the YAML
// file left; lists are split on '+'; booleans go through ParseBool(ToLower(.)), unparsable = prior.
func Harness_K8_CLI() {
	pTypes, pExcl, pPkg, pTarget, pDur, pSort := vrtString(), vrtString(), vrtString(), vrtString(), vrtString(), vrtString()
	vrtAssume(vrtPrintable(pTypes) && vrtPrintable(pExcl) && vrtPrintable(pPkg) && vrtPrintable(pTarget) && vrtPrintable(pDur) && vrtPrintable(pSort))
	priorTypes, priorExcl := vrtFlagMap(1), vrtFlagMap(1)
	prior := Config{Types: priorTypes, ExcludeFields: priorExcl, DefaultPackageName: vrtString(), TargetPackageName: vrtString(),
		DurationCustomType: vrtString(), Sort: vrtBool()}
	c := prior
	c.params = map[string]string{"types": pTypes, "exclude_fields": pExcl, "default_package_name": pPkg,
		"target_package_name": pTarget, "custom_duration": pDur, "sort": pSort}
	err := c.readFromCLI()
	vrtAssert("C16/K8/cli-no-error", err == nil)
	probe := vrtString()

	// lists
	tt := strings.Trim(pTypes, vrtWS)
	_, gotIn := c.Types[probe]
	if tt == "" {
		_, was := priorTypes[probe]
		vrtAssert("C16/K8/types-absent-keeps-yaml", gotIn == was)
	} else {
		want := strings.Contains("+"+tt+"+", "+"+probe+"+") && !strings.Contains(probe, "+")
		vrtAssert("C16/K8/types-cli-wins-plus-separated", gotIn == want)
	}
	te := strings.Trim(pExcl, vrtWS)
	_, exIn := c.ExcludeFields[probe]
	if te == "" {
		_, was := priorExcl[probe]
		vrtAssert("C16/K8/exclude-absent-keeps-yaml", exIn == was)
	} else {
		want := strings.Contains("+"+te+"+", "+"+probe+"+") && !strings.Contains(probe, "+")
		vrtAssert("C16/K8/exclude-cli-wins-plus-separated", exIn == want)
	}
	// strings
	str := func(label, p, priorV, got string) {
		t := strings.Trim(p, vrtWS)
		if t == "" {
			vrtAssert("C16/K8/"+label+"-absent-keeps-yaml", got == priorV)
		} else {
			vrtAssert("C16/K8/"+label+"-cli-wins", got == t)
		}
	}
	str("default-package", pPkg, prior.DefaultPackageName, c.DefaultPackageName)
	str("target-package", pTarget, prior.TargetPackageName, c.TargetPackageName)
	str("custom-duration", pDur, prior.DurationCustomType, c.DurationCustomType)
	// bool
	a := strings.ToLower(strings.Trim(pSort, vrtWS))
	switch {
	case a == "":
		vrtAssert("C16/K8/sort-absent-keeps-yaml", c.Sort == prior.Sort)
	case inStrs(vrtTrue, a):
		vrtAssert("C16/K8/sort-true", c.Sort)
	case inStrs(vrtFalse, a):
		vrtAssert("C16/K8/sort-false", !c.Sort)
	default:
		vrtAssert("C16/K8/sort-unparsable-keeps-yaml", c.Sort == prior.Sort)
	}
	vrtReach("K8/cli/end")
}

// Harness_K8_CLIFlags: the three remaining list options that exist on both channels
// (computed_fields, required_fields, sensitive). Each is its own parameter: the '+'-separated
// parameter replaces the YAML list of that option and of no other option; an absent or blank
// parameter leaves the YAML list as it was.
func Harness_K8_CLIFlags() {
	pComp, pReq, pSens := vrtString(), vrtString(), vrtString()
	vrtAssume(vrtPrintable(pComp) && vrtPrintable(pReq) && vrtPrintable(pSens))
	priorComp, priorReq, priorSens, priorTypes, priorExcl := vrtFlagMap(1), vrtFlagMap(1), vrtFlagMap(1), vrtFlagMap(1), vrtFlagMap(1)
	c := Config{Types: priorTypes, ExcludeFields: priorExcl, ComputedFields: priorComp, RequiredFields: priorReq, SensitiveFields: priorSens}
	c.params = map[string]string{"computed_fields": pComp, "required_fields": pReq, "sensitive": pSens}
	err := c.readFromCLI()
	vrtAssert("C16/K8/cli-flags-no-error", err == nil)
	probe := vrtString()
	list := func(label, p string, prior, got flagMap) {
		t := strings.Trim(p, vrtWS)
		_, in := got[probe]
		if t == "" {
			_, was := prior[probe]
			vrtAssert("C16/K8/"+label+"-absent-keeps-yaml", in == was && len(got) == len(prior))
		} else {
			want := strings.Contains("+"+t+"+", "+"+probe+"+") && !strings.Contains(probe, "+")
			vrtAssert("C16/K8/"+label+"-cli-wins-plus-separated", in == want)
		}
	}
	list("computed", pComp, priorComp, c.ComputedFields)
	list("required", pReq, priorReq, c.RequiredFields)
	list("sensitive", pSens, priorSens, c.SensitiveFields)
	// parameters of other options are absent: their lists are untouched
	_, tIn := c.Types[probe]
	_, tWas := priorTypes[probe]
	_, eIn := c.ExcludeFields[probe]
	_, eWas := priorExcl[probe]
	vrtAssert("C16/K8/flags-params-leave-other-lists", tIn == tWas && eIn == eWas && len(c.Types) == len(priorTypes) && len(c.ExcludeFields) == len(priorExcl))
	vrtReach("K8/cliflags/end")
}

// Harness_K8_ListOrder (C14): the flag map built from a '+'-separated list does not depend on the
// order of the entries.
func Harness_K8_ListOrder() {
	a, b, c := vrtString(), vrtString(), vrtString()
	vrtAssume(!strings.Contains(a, "+") && !strings.Contains(b, "+") && !strings.Contains(c, "+"))
	vrtAssume(vrtPrintable(a) && vrtPrintable(b) && vrtPrintable(c))
	// entries are names: no surrounding whitespace (the parameter as a whole is trimmed, so an entry
	// with surrounding whitespace is a different entry at the end of the list than in the middle)
	vrtAssume(strings.Trim(a, vrtWS) == a && strings.Trim(b, vrtWS) == b && strings.Trim(c, vrtWS) == c && a != "" && c != "")
	c1 := Config{params: map[string]string{"types": a + "+" + b + "+" + c}}
	c2 := Config{params: map[string]string{"types": c + "+" + a + "+" + b}}
	m1 := c1.getSliceParam("types", nil)
	m2 := c2.getSliceParam("types", nil)
	probe := vrtString()
	_, in1 := m1[probe]
	_, in2 := m2[probe]
	vrtAssert("C14/K8/list-order-irrelevant", in1 == in2)
	vrtAssert("C14/K8/list-size", len(m1) == len(m2))
	f1 := flagMapFromArray([]string{a, b, c})
	f2 := flagMapFromArray([]string{b, c, a})
	_, g1 := f1[probe]
	_, g2 := f2[probe]
	vrtAssert("C14/K8/flag-map-from-array-order-irrelevant", g1 == g2 && len(f1) == len(f2))
	vrtReach("K8/order/end")
}

// Harness_K8_ReadConfig: an unreadable or unparsable file, or no `types` after both channels, is an
// error (no generation with defaults); otherwise the CLI value wins over the YAML value.
func Harness_K8_ReadConfig() {
	useFile, readErr, yamlErr, emptyList := vrtBool(), vrtBool(), vrtBool(), vrtBool()
	yamlType := vrtString()
	cliTypes := vrtString()
	vrtAssume(vrtIdent(yamlType) && vrtPrintable(cliTypes) && !strings.Contains(cliTypes, "+"))
	params := map[string]string{"types": cliTypes}
	if useFile {
		params["config"] = vrtConfigFile(readErr, yamlErr, emptyList, yamlType)
	}
	c, err := ReadConfig(params)
	ct := strings.Trim(cliTypes, vrtWS)
	switch {
	case useFile && (readErr || yamlErr):
		vrtAssert("C16/K8/unreadable-or-unparsable-config-is-error", err != nil && c == nil)
	case ct == "" && (!useFile || yamlType == ""):
		vrtAssert("C16/K8/no-types-is-error", err != nil && c == nil)
	default:
		vrtAssert("C16/K8/config-read", err == nil && c != nil)
		if c != nil {
			want := yamlType
			if ct != "" {
				want = ct
			}
			_, ok := c.Types[want]
			vrtAssert("C16/K8/cli-types-over-yaml-types", ok && len(c.Types) == 1)
		}
	}
	vrtReach("K8/readconfig/end")
}

// Harness_K8_FlagMapYAML: the YAML decoder of a list option (types, exclude_fields, computed_fields,
// required_fields, sensitive_fields). The decoder callback is the environment: it either fails (the
// YAML value is not a list of strings) or delivers a list. A failure must surface as an error - a
// configuration file that cannot be parsed makes the plugin fail (C16) - and a list becomes exactly
// its set of entries.
func Harness_K8_FlagMapYAML() {
	fail := vrtBool()
	a, b, probe := vrtString(), vrtString(), vrtString()
	n := vrtLen(2)
	list := []string{}
	if n == 1 {
		list = []string{a}
	} else if n == 2 {
		list = []string{a, b}
	}
	var lm flagMap
	err := lm.UnmarshalYAML(func(v interface{}) error {
		if fail {
			return errors.New("yaml: cannot unmarshal !!str into []string")
		}
		*(v.(*[]string)) = list
		return nil
	})
	if fail {
		vrtAssert("C16/K8/wrongly-shaped-list-is-error", err != nil)
	} else {
		_, in := lm[probe]
		want := (n >= 1 && probe == a) || (n >= 2 && probe == b)
		vrtAssert("C16/K8/yaml-list-becomes-flag-map", err == nil && lm != nil && in == want)
	}
	vrtReach("K8/flagmapyaml/end")
}
