package main

// K1 (C02): attribute naming; K10 (C07): oneof holder / wrapper names; C17: custom type suffix.

import (
	"strings"

	"github.com/gogo/protobuf/protoc-gen-gogo/descriptor"
	"github.com/gogo/protobuf/protoc-gen-gogo/generator"
	"github.com/stoewer/go-strcase"
)

func vrtStrMap(k int) map[string]string {
	m := map[string]string{}
	n := vrtLen(k)
	for i := 0; i < k; i++ {
		key, v := vrtString(), vrtString()
		if i < n {
			m[key] = v
		}
	}
	return m
}

// firstElem: the part of a json tag before the first comma (written without strings.Split).
func firstElem(tag string) string {
	i := strings.Index(tag, ",")
	if i < 0 {
		return tag
	}
	return tag[:i]
}

// Harness_K1_Name: name_overrides by path, then by Message.Field, then the first element of the
// json tag unless it is empty or "-", then snake_case of the proto name.
func Harness_K1_Name() {
	ov := vrtStrMap(2)
	o := vrtOpts{HasJSONTag: vrtBool(), JSONTag: vrtString()}
	name := vrtString()
	f := &descriptor.FieldDescriptorProto{Name: &name, Options: vrtFieldOptions(o)}
	c := &FieldBuildContext{typeName: vrtString(), path: vrtString(), field: &FieldDescriptorProtoExt{f}}
	c.config = &Config{NameOverrides: ov}
	got := c.GetNameSnake()
	byPath, okP := ov[c.path]
	byKey, okK := ov[c.typeName]
	first := firstElem(o.JSONTag)
	switch {
	case okP:
		vrtAssert("C02+C11/K1/override-by-path-first", got == byPath)
	case okK:
		vrtAssert("C02+C11/K1/override-by-message-field", got == byKey)
	case o.HasJSONTag && first != "" && first != "-":
		vrtAssert("C02+C11/K1/json-tag-first-element", got == first)
	default:
		vrtAssert("C02+C11/K1/snake-case-of-proto-name", got == strcase.SnakeCase(name))
	}
	vrtReach("K1/name/end")
}

// Harness_K1_NoOptions: a field without any options falls back to snake_case.
func Harness_K1_NoOptions() {
	name := vrtString()
	f := &descriptor.FieldDescriptorProto{Name: &name}
	c := &FieldBuildContext{typeName: vrtString(), path: vrtString(), field: &FieldDescriptorProtoExt{f}}
	c.config = &Config{}
	vrtAssert("C02/K1/no-options-snake-case", c.GetNameSnake() == strcase.SnakeCase(name))
	vrtReach("K1/noopt/end")
}

func upperFirstRule(name string) string {
	// documented: names starting with a lower-case letter are converted to UpperCamelCase
	if name[0:1] == strings.ToLower(name[0:1]) {
		return strcase.UpperCamelCase(name)
	}
	return name
}

// Harness_K10_OneOf: the holder name used by CopyFrom's reset (GetOneOfNames) is the one used by the
// branch fields (GetOneOfFieldName); the wrapper type is [pkg.]Message_Field.
func Harness_K10_OneOf() {
	n0, n1 := vrtString(), vrtString()
	msgName, fieldName, pkg := vrtString(), vrtString(), vrtString()
	vrtAssume(len(n0) > 0 && len(n1) > 0 && len(fieldName) > 0)
	idx := int32(vrtLen(1))
	dp := &descriptor.DescriptorProto{Name: &msgName, OneofDecl: []*descriptor.OneofDescriptorProto{{Name: &n0}, {Name: &n1}}}
	mc := MessageBuildContext{desc: &generator.Descriptor{DescriptorProto: dp}, config: &Config{DefaultPackageName: pkg}}
	f := &descriptor.FieldDescriptorProto{Name: &fieldName, OneofIndex: &idx}
	c := &FieldBuildContext{MessageBuildContext: mc, field: &FieldDescriptorProtoExt{f}}
	names := mc.GetOneOfNames()
	vrtAssert("C07/K10/one-name-per-group", len(names) == 2)
	want := upperFirstRule(n0)
	if idx == 1 {
		want = upperFirstRule(n1)
	}
	vrtAssert("C07/K10/holder-name-documented", c.GetOneOfFieldName() == want)
	if len(names) == 2 {
		vrtAssert("C07/K10/reset-and-branch-agree", names[idx] == c.GetOneOfFieldName())
	}
	wrapper := msgName + "_" + upperFirstRule(fieldName)
	if pkg != "" {
		wrapper = pkg + "." + wrapper
	}
	vrtAssert("C07/K10/wrapper-type-name", c.GetOneOfTypeName() == wrapper)
	vrtReach("K10/oneof/end")
}

// Harness_K10_NotOneOf: a field outside any oneof has no holder and no wrapper.
func Harness_K10_NotOneOf() {
	msgName, fieldName := vrtString(), vrtString()
	dp := &descriptor.DescriptorProto{Name: &msgName}
	mc := MessageBuildContext{desc: &generator.Descriptor{DescriptorProto: dp}, config: &Config{}}
	f := &descriptor.FieldDescriptorProto{Name: &fieldName}
	c := &FieldBuildContext{MessageBuildContext: mc, field: &FieldDescriptorProtoExt{f}}
	vrtAssert("C07/K10/no-holder-outside-oneof", c.GetOneOfFieldName() == "" && c.GetOneOfTypeName() == "" && !c.IsOneOf())
	vrtReach("K10/notoneof/end")
}

// Harness_K17_Suffix: a field is custom iff it has the proto option or a custom_types entry for its
// path; the suffix is the suffixes entry of the custom type, else the type name without "/" and ".".
func Harness_K17_Suffix() {
	suf := vrtStrMap(2)
	cts := vrtStrMap(2)
	o := vrtOpts{CustomType: vrtString()}
	name := vrtString()
	fd := &descriptor.FieldDescriptorProto{Name: &name, Options: vrtFieldOptions(o)}
	c := &FieldBuildContext{typeName: vrtString(), path: vrtString(), field: &FieldDescriptorProtoExt{fd}}
	c.config = &Config{Suffixes: suf, CustomTypes: cts}
	f := &Field{}
	f.setCustomType(c)
	cfgCT, byCfg := cts[c.path]
	isCustom := byCfg || o.CustomType != ""
	vrtAssert("C17/K17/custom-iff-option-or-config", f.IsCustomType == isCustom && c.IsCustomType() == isCustom)
	ct := o.CustomType
	if byCfg {
		ct = cfgCT
	}
	if isCustom {
		vrtAssert("C17/K17/custom-type-config-first", c.GetCustomType() == ct)
		if s, ok := suf[c.GetCustomType()]; ok {
			vrtAssert("C17/K17/suffix-from-suffixes", f.Suffix == s)
		} else {
			vrtAssert("C17/K17/suffix-default-no-dots-slashes", !strings.Contains(f.Suffix, "/") && !strings.Contains(f.Suffix, "."))
			// GetCustomType() == ct is asserted above; the removal is applied to the same term
			vrtAssert("C17/K17/suffix-default-is-type-name", f.Suffix == strings.ReplaceAll(strings.ReplaceAll(c.GetCustomType(), "/", ""), ".", ""))
		}
	} else {
		vrtAssert("C17/K17/no-suffix-when-not-custom", f.Suffix == "")
	}
	vrtReach("K17/suffix/end")
}

// Harness_K17_Kind: a custom-type field is of the custom kind whatever else it is (repeated, map,
// message): all three generators dispatch on the kind, so this is what routes a field to the hooks.
func Harness_K17_Kind() {
	f := &Field{IsCustomType: vrtBool(), IsMap: vrtBool(), IsRepeated: vrtBool()}
	f.IsMessage = vrtBool()
	mv := &Field{}
	mv.IsMessage = vrtBool()
	f.MapValueField = mv
	k := f.getKind()
	vrtAssert("C17/K17/custom-kind-iff-custom-type", (k == CustomKind) == f.IsCustomType)
	if !f.IsCustomType {
		switch {
		case f.IsMap:
			want := PrimitiveMapKind
			if mv.IsMessage {
				want = ObjectMapKind
			}
			vrtAssert("C17/K17/kind-of-ordinary-map", k == want)
		case f.IsRepeated:
			want := PrimitiveListKind
			if f.IsMessage {
				want = ObjectListKind
			}
			vrtAssert("C17/K17/kind-of-ordinary-list", k == want)
		case f.IsMessage:
			vrtAssert("C17/K17/kind-of-ordinary-message", k == ObjectKind)
		default:
			vrtAssert("C17/K17/kind-of-ordinary-scalar", k == PrimitiveKind)
		}
	}
	vrtReach("K17/kind/end")
}
