package main

// K14 (C14): the configuration is held in Go maps, and Go randomises the iteration order of a map on
// every range statement. The engine runs these kernels with -maporder: a range over a map visits its
// entries in an arbitrary order chosen by schedule variables. Every reader of a configuration map is
// evaluated twice (two independent schedules) and must return the same answer, and the documented
// precedence (field path first, then Message.Field) must hold under every schedule.

import (
	"strings"

	"github.com/gogo/protobuf/protoc-gen-gogo/descriptor"
)

func vrtSchemaTypeMap(k int) map[string]SchemaType {
	m := map[string]SchemaType{}
	n := vrtLen(k)
	for i := 0; i < k; i++ {
		key := vrtString()
		v := SchemaType{Type: vrtString(), ValueType: vrtString(), CastToType: vrtString(), CastFromType: vrtString(), TypeConstructor: vrtString()}
		if i < n {
			m[key] = v
		}
	}
	return m
}

func sameOverride(a, b *SchemaType) bool {
	if a == nil || b == nil {
		return a == nil && b == nil
	}
	return *a == *b
}

// Harness_K14_SchemaTypes: schema_types lookup.
func Harness_K14_SchemaTypes() {
	sts := vrtSchemaTypeMap(2)
	c := &FieldBuildContext{typeName: vrtString(), path: vrtString()}
	c.config = &Config{SchemaTypes: sts}
	a, b := c.GetTerraformTypeOverride(), c.GetTerraformTypeOverride()
	vrtAssert("C14/K14/schema-type-override-schedule-free", sameOverride(a, b))
	if v, ok := sts[c.path]; ok {
		vrtAssert("C14/K14/schema-type-by-path-first", a != nil && *a == v)
	} else if v, ok := sts[c.typeName]; ok {
		vrtAssert("C14/K14/schema-type-by-message-field", a != nil && *a == v)
	} else {
		vrtAssert("C14/K14/schema-type-none", a == nil)
	}
	vrtReach("K14/schematypes/end")
}

// Harness_K14_Names: name_overrides, custom_types and suffixes lookups.
func Harness_K14_Names() {
	ov, cts, suf := vrtStrMap(2), vrtStrMap(2), vrtStrMap(2)
	o := vrtOpts{HasJSONTag: vrtBool(), JSONTag: vrtString(), CustomType: vrtString()}
	name := vrtString()
	fd := &descriptor.FieldDescriptorProto{Name: &name, Options: vrtFieldOptions(o)}
	c := &FieldBuildContext{typeName: vrtString(), path: vrtString(), field: &FieldDescriptorProtoExt{fd}}
	c.config = &Config{NameOverrides: ov, CustomTypes: cts, Suffixes: suf}
	vrtAssert("C14/K14/name-schedule-free", c.GetNameSnake() == c.GetNameSnake())
	vrtAssert("C14/K14/custom-type-schedule-free", c.IsCustomType() == c.IsCustomType() && c.GetCustomType() == c.GetCustomType())
	f1, f2 := &Field{}, &Field{}
	f1.setCustomType(c)
	f2.setCustomType(c)
	vrtAssert("C14/K14/suffix-schedule-free", f1.IsCustomType == f2.IsCustomType && f1.Suffix == f2.Suffix)
	vrtReach("K14/names/end")
}

// Harness_K14_Flags: flag lists, validators and plan modifiers.
func Harness_K14_Flags() {
	ex, co, re, se := vrtFlagMap(2), vrtFlagMap(2), vrtFlagMap(2), vrtFlagMap(2)
	va, pm := vrtListMap(2), vrtListMap(2)
	cfg := &Config{ExcludeFields: ex, ComputedFields: co, RequiredFields: re, SensitiveFields: se, Validators: va, PlanModifiers: pm,
		UseStateForUnknownByDefault: vrtBool()}
	c := &FieldBuildContext{typeName: vrtString(), path: vrtString()}
	c.config = cfg
	vrtAssert("C14/K14/flags-schedule-free", c.IsExcluded() == c.IsExcluded() && c.IsComputed() == c.IsComputed() &&
		c.GetFlagValue(re) == c.GetFlagValue(re) && c.GetFlagValue(se) == c.GetFlagValue(se))
	vrtAssert("C14/K14/validators-schedule-free", sameList(c.GetValidators(), c.GetValidators()))
	vrtAssert("C14/K14/plan-modifiers-schedule-free", sameList(c.GetPlanModifiers(), c.GetPlanModifiers()))
	vrtReach("K14/flags/end")
}

// Harness_K14_Injected: injected_fields of a message (looked up by the message path).
func Harness_K14_Injected() {
	inj := map[string][]InjectedField{}
	n := vrtLen(2)
	for i := 0; i < 2; i++ {
		key := vrtString()
		a, b := InjectedField{Name: vrtString(), Type: vrtString()}, InjectedField{Name: vrtString(), Type: vrtString()}
		two := vrtBool()
		v := []InjectedField{a}
		if two {
			v = []InjectedField{a, b}
		}
		if i < n {
			inj[key] = v
		}
	}
	mc := MessageBuildContext{config: &Config{InjectedFields: inj}, path: vrtString()}
	vrtAssume(mc.path != "")
	x, y := mc.GetInjectedFields(), mc.GetInjectedFields()
	same := len(x) == len(y)
	if same {
		for i := range x {
			if x[i].Name != y[i].Name || x[i].Type != y[i].Type {
				same = false
			}
		}
	}
	vrtAssert("C14/K14/injected-fields-schedule-free", same)
	if v, ok := inj[mc.path]; ok {
		vrtAssert("C14/K14/injected-fields-by-message-path", len(x) == len(v) && (len(v) == 0 || x[0].Name == v[0].Name))
	} else {
		vrtAssert("C14/K14/injected-fields-none", len(x) == 0)
	}
	vrtReach("K14/injected/end")
}

// Harness_K14_FlagMapFromArray: the flag map built from a list does not depend on the order of the list
// (membership only), under every iteration schedule.
func Harness_K14_FlagMapFromArray() {
	a, b, q := vrtString(), vrtString(), vrtString()
	m1, m2 := flagMapFromArray([]string{a, b}), flagMapFromArray([]string{b, a})
	_, in1 := m1[q]
	_, in2 := m2[q]
	vrtAssert("C14/K14/flag-map-order-free", in1 == in2 && in1 == (q == a || q == b) && len(m1) == len(m2))
	vrtReach("K14/flagmap/end")
}

// Harness_K14_ReadConfig: reading the same file twice (two independent map-iteration schedules inside
// whatever ReadConfig does with the configuration maps) yields the same suffixes, and exactly the
// entries the file holds.
func Harness_K14_ReadConfig() {
	typ := vrtString()
	k1, v1, k2, v2, probe := vrtString(), vrtString(), vrtString(), vrtString(), vrtString()
	vrtAssume(vrtIdent(typ) && typ != "" && vrtPath(k1) && vrtPath(k2) && vrtIdent(v1) && vrtIdent(v2) && vrtPath(probe) && k1 != k2)
	vrtAssume(!strings.HasPrefix(k1, "-") && !strings.HasPrefix(k2, "-"))
	path := vrtConfigFileS(false, false, false, typ, k1, v1, k2, v2)
	c1, err1 := ReadConfig(map[string]string{"config": path})
	c2, err2 := ReadConfig(map[string]string{"config": path})
	vrtAssert("C14/K14/readconfig-ok", err1 == nil && err2 == nil && c1 != nil && c2 != nil)
	if c1 != nil && c2 != nil {
		s1, in1 := c1.Suffixes[probe]
		s2, in2 := c2.Suffixes[probe]
		vrtAssert("C14/K14/readconfig-suffixes-schedule-free", in1 == in2 && s1 == s2 && len(c1.Suffixes) == len(c2.Suffixes))
		want, wantIn := "", false
		if k1 != "" && probe == k1 {
			want, wantIn = v1, true
		}
		if k2 != "" && probe == k2 {
			want, wantIn = v2, true
		}
		vrtAssert("C14/K14/readconfig-suffixes-as-in-file", in1 == wantIn && s1 == want)
	}
	vrtReach("K14/readconfig/end")
}
