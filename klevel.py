"""Level K: generator kernels of /repo's package main, harnesses overlaid (no file in /repo is touched)."""
import glob, json, os, re, shutil, subprocess, time

VERIF = os.path.dirname(os.path.abspath(__file__))
REPO = os.environ.get("VERIF_REPO", "/repo")
GOENV = dict(os.environ, GOFLAGS="-mod=mod", GOPROXY="off", GOSUMDB="off", GOTOOLCHAIN="local")
KDIR = os.path.join(VERIF, "harness", "kernel")


def sh(cmd, cwd=None, timeout=None, env=None, check=True):
    p = subprocess.run(cmd, cwd=cwd, env=env or GOENV, stdout=subprocess.PIPE, stderr=subprocess.PIPE, timeout=timeout)
    if check and p.returncode != 0:
        raise RuntimeError("command failed (%d): %s\n%s\n%s" % (p.returncode, " ".join(map(str, cmd)), p.stdout.decode()[-2000:], p.stderr.decode()[-3000:]))
    return p


def overlay(ctx):
    """overlay JSON: harness files + runtime + generated replay test, all as /repo/zz_verif_*.go"""
    od = os.path.join(ctx.work, "koverlay")
    os.makedirs(od, exist_ok=True)
    repl = {}
    names = []
    for f in sorted(glob.glob(os.path.join(KDIR, "zz_verif_*.go"))):
        repl[os.path.join(REPO, os.path.basename(f))] = f
        names += re.findall(r"^func (Harness_\w+)\(\)", open(f).read(), re.M)
    test = os.path.join(od, "zz_verif_replay_test.go")
    with open(test, "w") as fh:
        fh.write("package main\n\nimport (\n\t\"os\"\n\t\"testing\"\n)\n\nvar vrtHarnesses = map[string]func(){\n")
        for n in names:
            fh.write("\t\"%s\": %s,\n" % (n, n))
        fh.write("}\n\nfunc TestVerifReplay(t *testing.T) {\n\tf, ok := vrtHarnesses[os.Getenv(\"VRT_HARNESS\")]\n\tif !ok {\n\t\tt.Fatal(\"unknown harness\")\n\t}\n"
                 "\tvrtLoad(os.Getenv(\"VRT_VECTOR\"))\n\tvrtRun(f)\n}\n")
    repl[os.path.join(REPO, "zz_verif_replay_test.go")] = test
    ov = os.path.join(od, "overlay.json")
    json.dump({"Replace": repl}, open(ov, "w"))
    return ov, names


def run(ctx, kspec):
    ov, names = overlay(ctx)
    out = []
    groups = kspec if isinstance(kspec, list) else [kspec]
    for gi, k in enumerate(groups):
        t0 = time.time()
        res_path = os.path.join(ctx.work, "kres%d.json" % gi)
        b = k.get("bounds", {}).get(ctx.tier, {})
        # thorough tier: two more bytes per string
        strmax = b.get("strmax", k.get("strmax", 6) + (2 if ctx.tier == "thorough" else 0))
        timeout_ms = 60000 if ctx.tier == "quick" else 300000
        cmd = [os.path.join(VERIF, "bin/gosym"), "-dir", REPO, "-pkg", ".", "-overlay", ov, "-run", k["harness"], "-labels", k["labels"],
               "-strings", "theory", "-maporder", "-strmax", str(strmax), "-splitmax", str(b.get("splitmax", k.get("splitmax", 4))), "-init",
               "-out", res_path, "-workers", str(k.get("workers", 8)), "-timeout", str(timeout_ms), "-unwind", str(k.get("unwind", 6)),
               "-witnesses", "3" if ctx.tier == "quick" else "10", "-seed", str(ctx.seed)]
        # z3 5.1.0 decides the bit-vector string kernels in seconds where 4.8.12 times out (measured)
        cmd += ["-solver", k.get("solver", "z3-new"), "-fallback", "z3"]
        if ctx.tier == "thorough" and k.get("solver2", "z3"):
            cmd += ["-solver2", k.get("solver2", "z3")]
        p = sh(cmd, check=False, timeout=7200)
        if p.returncode != 0:
            out.append({"program": "K:" + k["harness"], "error": "gosym failed: " + (p.stderr.decode() + p.stdout.decode())[-2500:]})
            continue
        res = json.load(open(res_path))
        res["program"] = "K:" + k["harness"]
        res["overlay"] = ov
        res["wall_s"] = time.time() - t0
        res["bounds"] = {"strmax": strmax}
        res["kspec"] = k
        if not res["harnesses"]:
            res["error"] = "no harness matched " + k["harness"]
        out.append(res)
    return out


_ktest = {}


def replay(ctx, ov, harness, model, repeat=1, target=""):
    if ov not in _ktest:
        binp = os.path.join(ctx.work, "ktest.bin")
        sh(["go", "test", "-c", "-vet=off", "-overlay", ov, "-o", binp, "."], cwd=REPO, timeout=1200)
        _ktest[ov] = binp
    vec = os.path.join(ctx.work, "kvec-%d.json" % time.time_ns())
    json.dump(model or [], open(vec, "w"))
    env = dict(GOENV, VRT_HARNESS=harness, VRT_VECTOR=vec, VRT_REPEAT=str(repeat), VRT_TARGET=target)
    p = sh([_ktest[ov], "-test.run", "^TestVerifReplay$", "-test.v"], cwd=REPO, env=env, check=False, timeout=300)
    for line in p.stdout.decode().splitlines():
        if line.startswith("VRT-REPORT "):
            return json.loads(line[len("VRT-REPORT "):])
    return {"crash": (p.stdout.decode() + p.stderr.decode())[-2000:]}


def confirms(obl, rep):
    if "crash" in rep or rep.get("assume_failed") or rep.get("desync"):
        return False
    if obl["kind"] == "panic":
        return "panic" in rep
    if obl["kind"] == "excused":
        return any(k.startswith(obl["label"] + "|") for k in (rep.get("known") or []))
    return obl["label"] in (rep.get("failed") or [])


def save_bundle(ctx, res, harness, obl, rep):
    n = len(ctx.violations) + len(ctx.known) + 1
    bd = os.path.join(VERIF, "replays", ctx.prop, "K-%s-%s-%d" % (harness, re.sub(r"[^A-Za-z0-9]+", "_", obl["label"])[:60], n))
    shutil.rmtree(bd, ignore_errors=True)
    os.makedirs(bd)
    json.dump({"property": ctx.prop, "level": "K", "harness": harness, "label": obl["label"], "kind": obl["kind"], "model": obl.get("model"),
               "native_report": rep}, open(os.path.join(bd, "replay.json"), "w"), indent=1)
    open(os.path.join(bd, "replay.sh"), "w").write("#!/bin/sh\ncd %s && exec python3 check.py %s --replay %s\n" % (VERIF, ctx.prop, bd))
    os.chmod(os.path.join(bd, "replay.sh"), 0o755)
    return bd


def judge(ctx, kspec, res):
    if "error" in res:
        ctx.errors.append("%s: %s" % (res["program"], res["error"]))
        return
    lre = re.compile(res["kspec"]["labels"])
    for h in res["harnesses"]:
        if h["status"] != "ok":
            ctx.errors.append("%s: %s" % (h["harness"], h.get("error")))
            continue
        reach = {}
        for o in h["obligations"]:
            v = o["verdict"]
            # a disagreement needs two decisive answers; unknown / timeout of the cross-check solver = not cross-checked
            if o.get("verdict2") in ("sat", "unsat") and v in ("sat", "unsat") and o["verdict2"] != v and not o["folded"]:
                ctx.errors.append("%s %s: solvers disagree (%s vs %s)" % (h["harness"], o["label"], v, o["verdict2"]))
            if o["kind"] == "reach":
                reach[o["label"]] = reach.get(o["label"], False) or v == "sat"
                if v not in ("sat", "unsat"):
                    ctx.errors.append("%s %s: reachability inconclusive (%s)" % (h["harness"], o["label"], v))
                continue
            if o["kind"] == "witness-random":
                if v != "sat":
                    continue
                rep = replay(ctx, res["overlay"], h["harness"], o.get("model"))
                o["native"] = rep
                bad = [x for x in (rep.get("failed") or []) if lre.search(x)] or rep.get("panic") or rep.get("crash") or rep.get("desync") or rep.get("assume_failed")
                proved = all(x["verdict"] == "unsat" for x in h["obligations"] if x["kind"] in ("violation", "panic"))
                if bad and proved:
                    ctx.errors.append("%s: randomised witness fails natively although every obligation was proved (engine unsound?): %s" % (h["harness"], json.dumps(rep)[:600]))
                continue
            if o["kind"] == "witness":
                if v != "sat":
                    ctx.errors.append("%s %s: harness end not reachable (%s) - vacuous" % (h["harness"], o["label"], v))
                    continue
                rep = replay(ctx, res["overlay"], h["harness"], o.get("model"))
                o["native"] = rep
                bad = [x for x in (rep.get("failed") or []) if lre.search(x)] or rep.get("panic") or rep.get("crash") or rep.get("desync") or rep.get("assume_failed")
                proved = all(x["verdict"] == "unsat" for x in h["obligations"] if x["kind"] in ("violation", "panic"))
                if bad and proved:
                    ctx.errors.append("%s: witness model fails natively although every obligation was proved: %s" % (h["harness"], json.dumps(rep)[:600]))
                continue
            if o["kind"] == "excused":
                if v == "sat":
                    rep = replay(ctx, res["overlay"], h["harness"], o.get("model"))
                    if confirms(o, rep):
                        ctx.known.append((o.get("excuse"), o["label"], h["harness"], save_bundle(ctx, res, h["harness"], o, rep)))
                    else:
                        ctx.errors.append("%s %s: excused counterexample does not replay" % (h["harness"], o["label"]))
                elif v != "unsat":
                    ctx.errors.append("%s %s: inconclusive (%s)" % (h["harness"], o["label"], v))
                continue
            if v == "unsat":
                continue
            if v == "sat":
                rep = replay(ctx, res["overlay"], h["harness"], o.get("model"))
                if not confirms(o, rep) and h.get("schedule_vars"):
                    # the counterexample may need a particular map iteration order: Go re-randomises it on
                    # every range statement, so the same draws are replayed repeatedly in one process
                    rep = replay(ctx, res["overlay"], h["harness"], o.get("model"), repeat=5000, target=o["label"] if o["kind"] != "panic" else "")
                o["native"] = rep
                if confirms(o, rep) or (o["kind"] == "outside-excuse" and o["label"] in (rep.get("failed") or [])):
                    ctx.violations.append((o["label"], h["harness"], save_bundle(ctx, res, h["harness"], o, rep)))
                else:
                    ctx.errors.append("%s %s: solver model does not reproduce natively (stub under-constrained or engine bug): %s" %
                                      (h["harness"], o["label"], json.dumps(rep)[:600]))
            else:
                ctx.errors.append("%s %s: inconclusive (%s)" % (h["harness"], o["label"], v))
        labels = {o["label"] for o in h["obligations"] if o["kind"] == "violation" and not o["folded"]}
        for lab in labels:
            if lab in reach and not reach[lab]:
                ctx.errors.append("%s %s: assertion is unreachable in every instance (vacuous)" % (h["harness"], lab))


def replay_bundle(ctx, info):
    ov, _ = overlay(ctx)
    rep = replay(ctx, ov, info["harness"], info.get("model"))
    if not (confirms({"kind": info["kind"], "label": info["label"]}, rep) or info["label"] in (rep.get("failed") or [])):
        rep = replay(ctx, ov, info["harness"], info.get("model"), repeat=5000, target=info["label"] if info["kind"] != "panic" else "")
    print(json.dumps(rep))
    if confirms({"kind": info["kind"], "label": info["label"]}, rep) or info["label"] in (rep.get("failed") or []):
        print("VIOLATION property=%s replay=%s" % (ctx.prop, info.get("path", "")))
        return 1
    print("replay does not fail on this tree")
    return 0
