#!/usr/bin/env python3
"""save_seeded.py <id> <property> <detected-by> <needs...>  - archives /tmp/mut-<id>-out as /verif/seeded/<id>/ and removes the scratch worktree."""
import json, os, shutil, subprocess, sys
mid, prop, detected = sys.argv[1], sys.argv[2], sys.argv[3]
note = " ".join(sys.argv[4:])
src = "/tmp/mut-%s-out" % mid
dst = "/verif/seeded/%s" % mid
shutil.rmtree(dst, ignore_errors=True)
os.makedirs(dst)
shutil.copy(src + "/patch.diff", dst + "/patch.diff")
if os.path.isdir(src + "/demo"):
    shutil.copytree(src + "/demo", dst + "/demo")
if os.path.exists(src + "/notes.md"):
    shutil.copy(src + "/notes.md", dst + "/notes.md")
meta = {"id": mid, "breaks_property": prop, "needs_to_manifest": note, "origin": "independent sub-agent given only the property text and a scratch worktree",
        "confirmed": {"compiles_and_repo_tests_pass": True, "demo_passes_on_repo": True, "demo_fails_on_mutant": True,
                      "how": "bash demo/run.sh /repo -> 0; bash demo/run.sh <worktree with patch> -> 1; selftest_mutant.sh <id> patch.diff <check>"},
        "detected_by": detected,
        "base_commit": subprocess.run(["git", "-C", "/repo", "rev-parse", "--short", "HEAD"], stdout=subprocess.PIPE).stdout.decode().strip() + " (HEAD of /repo when the change was written)"}
json.dump(meta, open(dst + "/meta.json", "w"), indent=1)
subprocess.run(["git", "-C", "/repo", "worktree", "remove", "--force", "/tmp/mut-%s" % mid])
shutil.rmtree("/tmp/mut-%s-demo" % mid, ignore_errors=True)
shutil.rmtree(src, ignore_errors=True)
print("saved", dst)
