#!/bin/sh
# Builds the framework from files on disk only (offline, module cache).
set -e
cd "$(dirname "$0")"
export GOFLAGS=-mod=mod GOPROXY=off GOSUMDB=off GOTOOLCHAIN=local
mkdir -p bin evidence replays
(cd engine && go build -o ../bin/gosym .)
(cd corpus && go build -o ../bin/corpus .)
echo "setup ok"
