"""Property table: which harness families / kernels decide which property."""

BOUNDS = {"quick": {"KL": 2, "KM": 2}, "thorough": {"KL": 3, "KM": 2}}
BT = {"list_length": "<= 2 (quick) / <= 3 (thorough)", "map_entries": "<= 2", "nesting": "as in program (<= 3)",
      "scalars": "full machine width, full IEEE-754", "strings_level_G": "atoms with equality (unbounded)",
      "programs": "the corpus of DESIGN.md section 3.3 (regenerated from /repo on every run)"}


def G(families, harness, labels, programs=None, **kw):
    d = {"families": families, "harness": harness, "labels": labels, "bounds": BOUNDS}
    if programs:
        d["programs"] = programs
    d.update(kw)
    return d


def K(harness, labels, **kw):
    d = {"harness": harness, "labels": labels}
    d.update(kw)
    return d


PROPS = {
    "C10": {"level": "model_checking", "bounds_text": BT, "G": G(["schema"], "^Harness_Schema_", "^C10/"),
            "K": [K("^Harness_K4_", "^C10[+/]"), K("^Harness_K7_", "^C10/", strmax=4, splitmax=3), K("^Harness_K9_WithCall", "^C10/", strmax=4)], "O": "nested"},
    "C16": {"level": "model_checking", "bounds_text": BT, "K": [K("^Harness_K8_(CLI|CLIFlags|ReadConfig|FlagMapYAML)", "^C16/", strmax=4, splitmax=3)]},
    "C14": {"level": "model_checking", "bounds_text": BT, "K": [K("^Harness_K8_ListOrder", "^C14/", strmax=3, splitmax=4), K("^Harness_K14_", "^C14/", strmax=3)], "O": "determinism"},
    "C02": {"level": "model_checking", "bounds_text": BT, "G": G(["schema", "rt", "from"], "^Harness_(Schema|RT|From)_", "^C02/"),
            "K": [K("^Harness_K1_", "^C02[+/]"), K("^Harness_K2_", "^C02/", strmax=4)]},
    "C18": {"level": "model_checking", "bounds_text": BT, "K": [K("^Harness_K2_", "^C18/", strmax=4)], "O": "unsupported"},
    "C17": {"level": "model_checking", "bounds_text": BT, "K": [K("^Harness_K17_", "^C17/", strmax=4)],
            "G": G(["custom", "schema"], "^Harness_(Custom|Schema)_", "C17/", programs="custom", gosym=["-prune=false"])},
    "C11": {"level": "translation_validation", "bounds_text": BT, "K": [K("^Harness_K4_", "C11/"), K("^Harness_K1_Name", "C11/")],
            "V": G([], "^Harness_Diff_", "^C11/")},
    "C12": {"level": "translation_validation", "bounds_text": BT, "V": G([], "^Harness_Diff_", "^C12/"), "K": [K("^Harness_K12_", "^C12/")], "O": "selection"},
    "C13": {"level": "translation_validation", "bounds_text": BT, "V": G([], "^Harness_Diff_", "^C13/"), "K": [K("^Harness_K9_", "^C13/", strmax=5)]},
    "C15": {"level": "translation_validation", "bounds_text": BT, "V": G([], "^Harness_Diff_", "^C15/"), "O": "sorted"},
    "C03": {"level": "model_checking", "bounds_text": BT, "G": G(["rt", "schema"], "^Harness_(RT|Schema)_", "^C03/")},
    "C04": {"level": "model_checking", "bounds_text": BT, "G": G(["rt"], "^Harness_RT_", "^C04")},
    "C19": {"level": "model_checking", "bounds_text": BT, "G": G(["rt"], "^Harness_RT_", "C19/")},
    "C20": {"level": "model_checking", "bounds_text": BT, "G": G(["rt"], "^Harness_RT_", "^C20/")},
    "C07": {"level": "model_checking", "bounds_text": BT, "G": G(["rt", "from"], "^Harness_(RT|From)_", "^C07/", programs="oneof|empty|mini|sorted|docs|deep-n"),
            "K": [K("^Harness_K10_", "^C07/")]},
    "C06": {"level": "model_checking", "bounds_text": dict(BT, list_length="<= 2 in both tiers (C06); the thorough tier adds programs and witnesses"),
            "G": G(["corrupt", "custom"], "^Harness_(Corrupt|Custom)", "^C06[+/]", programs={"quick": "mini|embed$|embed-t|scal-S1|time|cast|flags|mapnest|empty|custom", "thorough": "mini|embed$|embed-t|embed-x|scal-S1|time|cast|flags|names|multi|mapnest|deep-[lmn]|empty|custom"}, gosym=["-prune=false", "-solver", "z3-new"],
                   # measured: with lists of 3 the corrupt family needs 20-30 min per program (P-nest, P-oneof: more than an hour);
                   # the thorough tier of C06 widens the set of programs and cross-checks every verdict, at the quick tier's sizes
                   bounds={"quick": {"KL": 2, "KM": 2}, "thorough": {"KL": 2, "KM": 2}},
                   # no cross-check for C06: z3 4.8.12 does not decide these queries within its cap (that is why z3 5.1.0 is
                   # the primary solver here); a cross-check that times out on most obligations only costs 45 s each
                   solver2=False)},
    "C05": {"level": "model_checking", "bounds_text": BT, "G": G(["from"], "^Harness_From_", "^C05/")},
    "C08": {"level": "model_checking", "bounds_text": BT, "G": G(["echo"], "^Harness_Echo_", "^C08/")},
    "C09": {"level": "model_checking", "bounds_text": BT, "G": G(["refresh"], "^Harness_Refresh_", "^C09/")},
}
