#!/usr/bin/env python3
"""Regenerates MANIFEST.json from the property table (props.py) and the texts below."""
import json, os, sys
sys.path.insert(0, os.path.dirname(os.path.abspath(__file__)))
from props import PROPS

G_NOTE = ("trusted: go/ssa lowering, gosym semantics (validated by native replay of every witness model and counterexample, and by the concrete mode), "
          "z3, summary S1 (null tftypes.Value), the corpus as the bound over descriptors/configurations; outside: longer lists/maps, descriptors not in the corpus, text rendering")
K_NOTE = ("level K: stubs constrained by contract (gogoproto option records built with real SetExtension, generator over a fixed type universe, strcase as uninterpreted functions, "
          "trace/logrus no-ops, yaml/ReadFile as an environment with one file); strings bounded (length <= 4..6 bytes, printable ASCII) as bit-vectors")

TEXT = {
 "C02": ("model_checking", "Level K: GetNameSnake / GetJSONName (name_overrides by path then Message.Field, json tag first element, snake_case) and the whole GetTerraformType table are executed symbolically from /repo's SSA over all option / type / configuration combinations and compared with the documented table; level G: the schema GenSchemaT returns for every corpus program is walked against the oracle's names and types (folded obligations), and every other G check builds its target from the oracle's names/types, so a naming or typing disagreement between schema, CopyTo and CopyFrom surfaces as a missing-attribute diagnostic there.", "6 C02"),
 "C03": ("model_checking", "Bounded symbolic execution of CopyTToTerraform emitted by the real plugin for every corpus program into an empty object typed by the oracle: no reachable panic, no error diagnostic, every attribute present with exactly the schema's value type, nothing unknown, created containers carry the schema's element/attribute types - for all struct values within the bounds. The schema's attribute types are the types the converters write (GenSchemaT walked against the oracle, incl. schema_types overrides and type constructors).", "6 C03"),
 "C04": ("model_checking", "CopyTo into an empty object followed by CopyFrom into a fresh struct, all struct values within the bounds: equality up to the documented normal form, one solver obligation per field path.", "6 C04"),
 "C05": ("model_checking", "CopyFrom from arbitrary conforming objects (nulls/unknowns anywhere, with and without payload under Null/Unknown) into two independently arbitrary targets: no error, null/unknown => zero/nil/empty (a null or unknown oneof branch attribute never makes its branch the held one), result independent of prior content and of hidden payload, excluded fields untouched.", "6 C05"),
 "C06": ("model_checking", "CopyFrom on objects corrupted at every depth (deleted / wrong dynamic type / nil interface attributes and list elements, nil Attrs) and CopyTo with attribute types removed at every object level: no reachable panic, exactly one missing diagnostic per missing attribute with the field's path, conversion diagnostics, intact attributes copied as in the uncorrupted run; diag.Diagnostics.Append/Contains and the generated diagnostic types are interpreted from their real SSA. The placeholder attribute of a field-less message is corrupted like any other. Both tiers use lists of at most 2; the thorough tier adds programs and witnesses. CopyTo into targets whose message attributes hold null / unknown objects without an Attrs map (as decoded from a state with null blocks): no panic, no error. Custom-type fields: a missing attribute (CopyFrom) or attribute type (CopyTo) is a diagnostic and the hook is not called without a type (recording hooks of P-custom).", "6 C06"),
 "C07": ("model_checking", "CopyFrom with any mix of branch attributes and any prior oneof state: exactly one known non-null branch => that wrapper with that value, none => nil; CopyTo: inactive branches null, active non-null iff payload non-zero; level K: GetOneOfNames / GetOneOfFieldName / GetOneOfTypeName agree for every declaration name.", "6 C07"),
 "C08": ("model_checking", "plan -> CopyFrom -> CopyTo in place for all plans under the property's side conditions: nothing unknown afterwards, known attributes unchanged, list/map null-ness, length and key set kept, decoding again yields the same struct.", "6 C08"),
 "C09": ("model_checking", "two successive in-place CopyTo calls with arbitrary earlier and new struct values, then a third identical call: lengths, elements, key sets, scalar values, pointer-backed null-ness follow the source (children of a nullable embedded message that became nil: null / empty); idempotence by deep equality of the Terraform values.", "6 C09"),
 "C10": ("model_checking", "Level K: GetFlagValue / IsComputed / GetValidators / GetPlanModifiers for all flag sets, maps and the use_state_for_unknown switch; Comment.ToSingleLine against a reference flattening for all printable strings within the bound; rendering of a path-qualified validator / plan-modifier call for all argument strings within the bound (arguments without '[]*'). Level G: the schema of every corpus program (flags, descriptions, validators / plan-modifier counts and which framework modifier, injected fields, placeholder) against the oracle (folded obligations). Accompanying (concrete): the real plugin on a descriptor with a message declared inside another message and Inner.field option keys; the schema text carries the flags (nested declarations are otherwise outside the fragment D).", "6 C10"),
 "C11": ("translation_validation", "Differential: for every exclusion / flag variant of P-multi, P-mapopt and P-custom in both key forms the converters generated with and without the option are executed symbolically side by side on the same arbitrary inputs: equal on all remaining attributes/fields, excluded field neither emitted nor written; the variant's schema is walked against the oracle. Level K: an option key affects a field iff it equals its path or its Message.Field key; validators / plan modifiers: path first, then Message.Field, then the default.", "6 C11"),
 "C12": ("translation_validation", "Differential: the three functions of a selected type generated alone vs together with other selected types / with an extra message / with an extra dependency file are equivalent on all inputs within the bounds; level K: Plugin.write emits exactly the root messages, RegisterMessage appends. The set of emitted functions per `types` selection (18 selections, incl. types embedded in or nested below other selected types) is observed on the real plugin (concrete, accompanying). The text of a type's three functions with and without other selected types (9 cases, incl. a message imported from a dependency file) is compared on the real plugin's output (concrete, accompanying).", "6 C12"),
 "C13": ("translation_validation", "Differential: same-package generation vs generation into a separate target package over the same struct package (struct package named by its import path, or by a bare alias + import_path_overrides; with and without a go_package option), equivalent on all inputs within the bounds, for programs with cast types, enums, oneof wrappers, embedded and map-of-message types; a variant whose file lacks a compared function is a violation. Level K: package qualification of types for all names / paths / modifiers within the string bound. A separate-package file that does not type-check in its package, while the same-package variant of the same descriptor does, is a violation.", "6 C13"),
 "C14": ("model_checking", "Level K with map iteration order as a schedule variable (gosym -maporder: a range over a map visits its entries in any order): every reader of a configuration map (flags, validators, plan modifiers, schema_types, name_overrides, custom_types, suffixes, injected_fields) evaluated under two independent schedules returns the same answer, with the documented precedence; the flag map built from a '+'-separated parameter / from a list does not depend on the order of the entries. ReadConfig on a configuration file with two suffixes entries, run under two schedules, yields the same suffixes and exactly the file's entries. Accompanying (concrete): the real plugin run 8 times per program on identical and list-rotated configurations yields byte-identical responses. Cross-run byte identity for all inputs is outside the technique.", "6 C14"),
 "C15": ("translation_validation", "Differential: converters and schema (incl. descriptions: comments move with their declarations) generated from a descriptor with permuted field / message declaration order (sort off, and sort on) are equivalent to the original (incl. a second CopyFrom into the targets the first one filled) on all inputs within the bounds (objects with at most one non-null branch per oneof group). Accompanying (concrete): with sort: true the real plugin's file is byte-identical for the original, reversed and rotated declaration order of 11 programs.", "6 C15"),
 "C16": ("model_checking", "Level K: readFromCLI over symbolic parameter strings and a symbolic prior (YAML) configuration: trimmed non-empty parameter wins, '+' separation, ParseBool(ToLower) with fallback; ReadConfig with the file system / YAML parser as an environment (unreadable file, unparsable file, one type, explicit empty list, no types key): errors instead of defaults, CLI types win over YAML types; flagMap.UnmarshalYAML propagates the decoder's error and builds exactly the listed set.", "6 C16"),
 "C17": ("model_checking", "Level K: setCustomType / IsCustomType / GetCustomType for all option, custom_types and suffixes combinations within the string bound; getKind: a custom-type field is of the custom kind whatever else it is. Level G (recording hooks): schema entry of custom fields equals the hook result for the attribute the field would otherwise get; CopyFrom / CopyTo call the hook exactly once with the field / attribute type / current value and store its result (scalar, repeated scalar, and repeated / singular / map message fields declared custom via custom_types); a missing attribute is still a diagnostic. A generated file that references an undefined GenSchema<S>/CopyFrom<S>/CopyTo<S> (the support package defines the hooks under the documented names, incl. a type name with '_') is a violation.", "6 C17"),
 "C18": ("model_checking", "Level K: GetTerraformType returns an error exactly for time/duration fields without configured type and for unmappable proto types, for every type / option / configuration combination. Propagation through BuildField/BuildFields/build is observed on the real pipeline (24 shapes: depth 0-2, list / map contexts, below a nested map / list, an embedded message with no other field, a later selected type, two selected types sharing the offending message, with and without exclude_fields; accompanying, not solver-decided).", "6 C18"),
 "C19": ("model_checking", "Exact equality of every scalar leaf after CopyTo;CopyFrom over the full machine width / full IEEE-754 range (up to the sign of zero, NaN excluded), decided on the emitted cast pairs as bit-vector / floating-point formulas. A time / duration held by value as a oneof branch survives the round trip with any payload, zero included.", "6 C19"),
 "C20": ("model_checking", "Null-ness of every attribute outside list/map elements after CopyTo into an empty object against the field's value (incl. by-value messages and time/duration inside nullable embedded messages), for all struct values within the bounds. The branch a oneof holds follows the same null-iff-zero rule.", "6 C20"),
}

def main():
    checks = []
    for pid in sorted(PROPS):
        cat, text, ref = TEXT[pid]
        spec = PROPS[pid]
        note = G_NOTE if ("G" in spec or "V" in spec) else ""
        if "K" in spec:
            note = (note + "; " if note else "") + K_NOTE
        checks.append({
            "property_id": pid,
            "quick_cmd": "python3 check.py %s --tier quick" % pid,
            "thorough_cmd": "python3 check.py %s --tier thorough" % pid,
            "evidence_file": "evidence/%s.json" % pid,
            "replay_cmd_template": "python3 check.py %s --replay {path}" % pid,
            "engine": "gosym",
            "level_claimed": {"category": cat, "text": text, "design_ref": "DESIGN.md section " + ref},
            "level_note": note,
            "technique": "bounded symbolic execution of go/ssa + SMT (z3), native replay of counterexamples",
        })
    na = [{"property_id": "C01", "reason": "compilability and response framing are judgements of the Go type checker / proto marshalling on rendered text; no solver encoding within reach (DESIGN section 7)"}]
    for pid in ["C%02d" % i for i in range(2, 21)]:
        if pid not in PROPS:
            na.append({"property_id": pid, "reason": "check not registered: it does not yet run clean on the unchanged tree within the time budget (see DESIGN.md)"})
    m = {
        "version": 1,
        "setup_cmd": "sh setup.sh",
        "hooks": {"guard": "verif", "enable": "none needed: harnesses reach unexported identifiers through go/packages overlays and go test -overlay",
                  "baseline_off_cmd": "cd /repo && go test -vet=off -count=1 ./...", "source_commits": [], "add_only": True},
        "engines": [{"name": "gosym", "path": "engine/", "serves_properties": sorted(PROPS),
                     "kind_free_text": "symbolic executor for go/ssa (merging, not forking) emitting SMT-LIB2 (bit-vectors, floating point, uninterpreted atoms; bounded bit-vector strings at level K) for z3; written for this task"}],
        "checks": checks,
        "not_applicable": na,
        "notes": "see DESIGN.md; known-findings.json lists the defects found and repaired (fix: commits in /repo)",
    }
    json.dump(m, open(os.path.join(os.path.dirname(os.path.abspath(__file__)), "MANIFEST.json"), "w"), indent=1)

if __name__ == "__main__":
    main()
